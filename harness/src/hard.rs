//! `verif_harness --sqrt-hard <K>`: the K positive P32E2 patterns whose exact square root lies closest to a rounding boundary
//! (hardest-to-round inputs), found by exact integer arithmetic over ALL 2^31 - 1 positive patterns — independent of the
//! crate under test (own decoder, u128 integer square root).  A tiny error anywhere in a square-root routine flips exactly these.
use std::collections::BinaryHeap;

/// decode a positive 32-bit es=2 posit pattern: (scale, fraction numerator, fraction bits)
fn decode(x: u32) -> (i32, u64, u32) {
    let mut bits = x << 1; // drop sign
    let first = bits >> 31;
    let mut run = 0u32;
    while run < 31 && (bits >> 31) == first {
        run += 1;
        bits <<= 1;
    }
    // `bits` now starts with the terminating bit (if any); consumed = run, remaining = 31 - run
    let k: i32 = if first == 1 { run as i32 - 1 } else { -(run as i32) };
    let rem = 31 - run; // bits left including terminator
    let rest_len = if rem > 0 { rem - 1 } else { 0 }; // after terminator
    let rest: u32 = if rest_len > 0 { (bits << 1) >> (32 - rest_len) } else { 0 };
    let (e, frac, fb) = if rest_len >= 2 {
        let fb = rest_len - 2;
        ((rest >> fb) as i32, (rest & ((1u32 << fb) - 1)) as u64, fb)
    } else {
        ((rest << (2 - rest_len)) as i32, 0u64, 0u32)
    };
    (4 * k + e, frac, fb)
}

fn isqrt(w: u128) -> u128 {
    if w == 0 { return 0; }
    let mut r = (w as f64).sqrt() as u128;
    while r * r > w { r -= 1; }
    while (r + 1) * (r + 1) <= w { r += 1; }
    r
}

/// hardness of x: distance (scaled by 2^40, in half-ulps of the result) from sqrt(x) to the nearest odd multiple of a half-ulp
/// of the result's binade; None when the result has no fraction bit (the boundary is not an arithmetic midpoint there)
fn hardness(x: u32) -> Option<u64> {
    let (s, frac, fb) = decode(x);
    // X = (2^fb + frac) * 2^(s - fb);  make the scale even
    let mut m: u128 = (1u128 << fb) + frac as u128;
    let mut sc = s - fb as i32;
    if sc & 1 != 0 { m <<= 1; sc -= 1; }
    let er = { // scale of the root = floor(s / 2)
        if s >= 0 { s / 2 } else { -((-s + 1) / 2) }
    };
    let kr = er >> 2;
    let reglen = if kr >= 0 { kr as u32 + 2 } else { (-kr) as u32 + 1 };
    if reglen + 2 + 1 > 31 { return None; }
    let fbr = 31 - reglen - 2; // fraction bits of the result
    // T = sqrt(X) / 2^(er - fbr - 1);  T^2 = m * 2^(sc - 2*(er - fbr - 1))
    let sh = sc - 2 * (er - fbr as i32 - 1);
    if sh < 0 || sh > 70 { return None; }
    let w = m << sh as u32;
    let r = isqrt(w);
    let q = if r & 1 == 1 { r } else { r + 1 }; // nearest odd integer candidates: r (if odd) or r+1
    let q2 = if r & 1 == 1 { r } else if r > 0 { r - 1 } else { 1 };
    let mut best = u128::MAX;
    for c in [q, q2] {
        let d = if c * c > w { c * c - w } else { w - c * c };
        // |T - c| ~ d / (2c); scale by 2^40
        let v = (d << 40) / (2 * c);
        if v < best { best = v; }
    }
    Some(best.min(u64::MAX as u128) as u64)
}

pub fn sqrt_hard(k: usize) {
    let nthreads = std::thread::available_parallelism().map(|n| n.get()).unwrap_or(4).min(16);
    let total: u64 = 1 << 31;
    let mut handles = Vec::new();
    for t in 0..nthreads as u64 {
        let lo = 1 + t * total / nthreads as u64;
        let hi = (1 + (t + 1) * total / nthreads as u64).min(total);
        handles.push(std::thread::spawn(move || {
            let mut heap: BinaryHeap<(u64, u32)> = BinaryHeap::new();
            for x in lo..hi {
                if let Some(h) = hardness(x as u32) {
                    if heap.len() < k { heap.push((h, x as u32)); }
                    else if h < heap.peek().unwrap().0 { heap.pop(); heap.push((h, x as u32)); }
                }
            }
            heap.into_vec()
        }));
    }
    let mut all: Vec<(u64, u32)> = Vec::new();
    for h in handles { all.extend(h.join().unwrap()); }
    all.sort();
    all.truncate(k);
    let mut out = String::new();
    for (_, x) in all { out.push_str(&format!("{:x}\n", x)); }
    print!("{}", out);
}

/// exact reference: the correctly rounded (posit rule) square root of a positive P32E2 pattern, by integer arithmetic only
fn sqrt_ref(x: u32) -> u32 {
    let (s, frac, fb) = decode(x);
    let mut m: u128 = (1u128 << fb) + frac as u128;
    let mut sc = s - fb as i32;
    if sc & 1 != 0 { m <<= 1; sc -= 1; }
    let mut er = if s >= 0 { s / 2 } else { -((-s + 1) / 2) };
    let enc = |er: i32, q: u128| -> u32 {
        let kr = er >> 2;
        let ee = (er & 3) as u32;
        let reglen = if kr >= 0 { kr as u32 + 2 } else { (-kr) as u32 + 1 };
        let fbr = 31 - reglen - 2;
        let regime: u32 = if kr >= 0 { ((1u32 << (kr as u32 + 1)) - 1) << 1 } else { 1 };
        (regime << (31 - reglen)) | (ee << fbr) | (q as u32 & ((1u32 << fbr) - 1))
    };
    let kr = er >> 2;
    let reglen = if kr >= 0 { kr as u32 + 2 } else { (-kr) as u32 + 1 };
    let fbr = 31 - reglen - 2;
    const G: u32 = 20;
    let sh = sc - 2 * (er - fbr as i32) + 2 * G as i32;
    let w = m << sh as u32;
    let r = isqrt(w);
    let exact = r * r == w;
    let mut q = r >> G;
    let guard = r & ((1u128 << G) - 1);
    let half = 1u128 << (G - 1);
    if guard > half || (guard == half && (!exact || (q & 1) == 1)) { q += 1; }
    if q == (1u128 << (fbr + 1)) { er += 1; return enc(er, 0); }
    enc(er, q)
}

/// `--sqrt-scan`: every positive P32E2 pattern whose `sqrt()` (the crate under test, this build profile) differs from the exact
/// reference or panics — a SEARCH over all 2^31 - 1 inputs; the candidates are judged by the specification afterwards
pub fn sqrt_scan(cap: usize) {
    use softposit::P32E2;
    std::panic::set_hook(Box::new(|_| {}));
    let nthreads = std::thread::available_parallelism().map(|n| n.get()).unwrap_or(4).min(16);
    let total: u64 = 1 << 31;
    let mut handles = Vec::new();
    for t in 0..nthreads as u64 {
        let lo = 1 + t * total / nthreads as u64;
        let hi = (1 + (t + 1) * total / nthreads as u64).min(total);
        handles.push(std::thread::spawn(move || {
            let mut bad: Vec<u32> = Vec::new();
            for x in lo..hi {
                let x = x as u32;
                let got = std::panic::catch_unwind(|| P32E2::from_bits(x).sqrt().to_bits());
                let ok = match got { Ok(v) => v == sqrt_ref(x), Err(_) => false };
                if !ok && bad.len() < cap { bad.push(x); }
            }
            bad
        }));
    }
    let mut out = String::new();
    for h in handles { for x in h.join().unwrap() { out.push_str(&format!("{:x}\n", x)); } }
    print!("{}", out);
}
