//! `verif_harness --scan <op> <cap>`: one unary P32E2 / from-f32 / from-integer operation on ALL 2^32 inputs against an exact
//! integer reference that is independent of the crate under test (own posit decoder / encoder with bit-string rounding, u128
//! arithmetic).  A SEARCH: each disagreeing or panicking input is printed as a protocol line and judged by the specification.
use softposit::{P16E1, P32E2, P8E0};

/// decode a positive n-bit posit pattern (right-aligned): value = m * 2^e
pub fn dec(n: u32, es: u32, x: u32) -> (u128, i32) {
    let mut bits = x << (33 - n); // drop sign, left-align the n-1 remaining bits
    let first = bits >> 31;
    let mut run = 0u32;
    while run < n - 1 && (bits >> 31) == first { run += 1; bits <<= 1; }
    let k: i32 = if first == 1 { run as i32 - 1 } else { -(run as i32) };
    let rem = n - 1 - run;
    let rest_len = if rem > 0 { rem - 1 } else { 0 };
    let rest: u32 = if rest_len > 0 { (bits << 1) >> (32 - rest_len) } else { 0 };
    let (e, frac, fb) = if rest_len >= es { let fb = rest_len - es; ((rest >> fb) as i32, rest & ((1u32 << fb) - 1), fb) } else { ((rest << (es - rest_len)) as i32, 0, 0) };
    let s = (k << es) + e;
    ((1u128 << fb) + frac as u128, s - fb as i32)
}

/// round the positive value m * 2^e (+ sticky remainder) to an n-bit posit pattern (bit-string RNE, never zero, never beyond maxpos)
pub fn enc(n: u32, es: u32, m: u128, e: i32, sticky: bool) -> u32 {
    // keep at most 64 significant bits (far more than any format here holds); the rest only matters as a sticky flag
    let (m, e, sticky) = { let l0 = 127 - m.leading_zeros(); if l0 > 63 { let sh = l0 - 63; (m >> sh, e + sh as i32, sticky || (m & ((1u128 << sh) - 1)) != 0) } else { (m, e, sticky) } };
    let l = 127 - m.leading_zeros() as i32;
    let s = l + e;
    let maxs = ((n - 2) << es) as i32;
    let maxpos = (1u32 << (n - 1)) - 1;
    if s >= maxs { return maxpos; }
    if s < -maxs { return 1; }
    let k = s >> es; let ee = (s & ((1 << es) - 1)) as u128;
    let (reglen, regime): (u32, u128) = if k >= 0 { (k as u32 + 2, ((1u128 << (k as u32 + 1)) - 1) << 1) } else { ((-k) as u32 + 1, 1) };
    let l = l as u32;
    let total = reglen + es + l;
    let v = (regime << (es + l)) | (ee << l) | (m - (1u128 << l));
    let keep = n - 1;
    let mut q: u128;
    if total <= keep { q = v << (keep - total); }
    else {
        let sh = total - keep;
        q = v >> sh;
        let guard = (v >> (sh - 1)) & 1;
        let rest = (v & ((1u128 << (sh - 1)) - 1)) != 0 || sticky;
        if guard == 1 && (rest || (q & 1) == 1) { q += 1; }
    }
    if q == 0 { q = 1; }
    if q > maxpos as u128 { q = maxpos as u128; }
    q as u32
}
fn neg32(p: u32, neg: bool) -> u32 { if neg { p.wrapping_neg() } else { p } }
fn isqrt(w: u128) -> u128 {
    if w == 0 { return 0; }
    let mut r = (w as f64).sqrt() as u128;
    while r * r > w { r -= 1; }
    while (r + 1) * (r + 1) <= w { r += 1; }
    r
}
/// nearest-even integer of m * 2^e
fn rne(m: u128, e: i32) -> u128 {
    if e >= 0 { return m << e as u32; }
    let sh = (-e) as u32;
    if sh >= 127 { return 0; }
    let ip = m >> sh; let guard = (m >> (sh - 1)) & 1; let rest = m & ((1u128 << (sh - 1)) - 1) != 0;
    if guard == 1 && (rest || ip & 1 == 1) { ip + 1 } else { ip }
}
fn f32_dec(b: u32) -> Option<(bool, u128, i32)> {   // None: NaN/inf; m == 0: zero
    let (s, ex, ma) = (b >> 31 == 1, (b >> 23) & 0xff, b & 0x7f_ffff);
    if ex == 255 { return None; }
    if ex == 0 { return Some((s, ma as u128, -149)); }
    Some((s, (ma | 0x80_0000) as u128, ex as i32 - 150))
}
fn from_f32_ref(n: u32, es: u32, b: u32) -> u32 {
    match f32_dec(b) {
        None => 1u32 << (n - 1),
        Some((_, 0, _)) => 0,
        Some((s, m, e)) => { let p = enc(n, es, m, e, false); if s { p.wrapping_neg() & (((1u64 << n) - 1) as u32) } else { p } }
    }
}

/// expected result of `op` on input `x`; None = input outside the scanned property (e.g. NaR for integer / float targets)
fn expect(op: &str, x: u32) -> Option<u64> {
    const NAR: u32 = 0x8000_0000;
    let neg = x >> 31 == 1;
    let mag = if neg { x.wrapping_neg() } else { x };
    Some(match op {
        "sqrt" => {
            if x == 0 { 0 } else if neg { NAR as u64 } else {
                let (mut m, mut e) = dec(32, 2, x);
                if e & 1 != 0 { m <<= 1; e -= 1; }
                let w = m << 64; let r = isqrt(w);
                enc(32, 2, r, (e - 64) / 2, r * r != w) as u64
            }
        }
        "round" | "floor" | "ceil" | "trunc" | "fract" => {
            if x == 0 || x == NAR { return Some(x as u64); }
            let (m, e) = dec(32, 2, mag);
            if e >= 0 { return Some(if op == "fract" { 0 } else { x as u64 }); }
            let sh = (-e) as u32;
            let (ip, fr) = if sh >= 127 { (0u128, m) } else { (m >> sh, m & ((1u128 << sh) - 1)) };
            if op == "fract" { return Some(if fr == 0 { 0 } else { neg32(enc(32, 2, fr, e, false), neg) as u64 }); }
            let up = match op { "trunc" => false, "floor" => neg && fr != 0, "ceil" => !neg && fr != 0, _ => rne(m, e) > ip };
            let r = ip + up as u128;
            if r == 0 { 0 } else { neg32(enc(32, 2, r, 0, false), neg) as u64 }
        }
        "to_i32" | "to_u32" | "to_i64" | "to_u64" => {
            if x == NAR { return None; }
            if x == 0 { return Some(0); }
            let (m, e) = dec(32, 2, mag);
            let r = rne(m, e);
            match op {
                "to_i32" => (if neg { if r >= 1 << 31 { i32::MIN } else { -(r as i64) as i32 } } else if r > i32::MAX as u128 { i32::MAX } else { r as i32 }) as u32 as u64,
                "to_i64" => (if neg { if r >= 1 << 63 { i64::MIN } else { -(r as i128) as i64 } } else if r > i64::MAX as u128 { i64::MAX } else { r as i64 }) as u64,
                "to_u32" => if neg { 0 } else if r > u32::MAX as u128 { u32::MAX as u64 } else { r as u64 },
                _ => if neg { 0 } else if r > u64::MAX as u128 { u64::MAX } else { r as u64 },
            }
        }
        "to_f64" | "to_f32" => {
            if x == NAR { return None; }
            if x == 0 { return Some(0); }
            let (m, e) = dec(32, 2, mag);
            let v = (m as f64) * (2.0f64).powi(e);           // exact: m < 2^28, |e| < 160
            let v = if neg { -v } else { v };
            if op == "to_f64" { v.to_bits() } else { (v as f32).to_bits() as u64 }
        }
        "to_p16_m" | "to_p8_m" => {
            let (n, es) = if op == "to_p16_m" { (16, 1) } else { (8, 0) };
            if x == 0 { return Some(0); }
            if x == NAR { return Some(1u64 << (n - 1)); }
            let (m, e) = dec(32, 2, mag);
            let p = enc(n, es, m, e, false);
            (if neg { p.wrapping_neg() & ((1u32 << n) - 1) } else { p }) as u64
        }
        "from_i32" => { let i = x as i32; if i == 0 { 0 } else { neg32(enc(32, 2, i.unsigned_abs() as u128, 0, false), i < 0) as u64 } }
        "from_u32" => { if x == 0 { 0 } else { enc(32, 2, x as u128, 0, false) as u64 } }
        "classify" => if x == 0 { 2 } else if x == NAR { 0 } else { 4 },
        // round trips through f64 and through the decimal text are the identity on every pattern (C03)
        "rt_f64" | "rt_str" => x as u64,
        // 64-bit integer sources: every value below 2^32 / every 32-bit signed value (P16E1 saturates from 2^28, P8E0 from 2^6 on)
        "p16_from_u64" => if x == 0 { 0 } else { enc(16, 1, x as u128, 0, false) as u64 },
        "p8_from_u64" => if x == 0 { 0 } else { enc(8, 0, x as u128, 0, false) as u64 },
        "p16_from_i64" | "p8_from_i64" => { let (n, es) = if op == "p16_from_i64" { (16, 1) } else { (8, 0) }; let i = x as i32;
            if i == 0 { 0 } else { let p = enc(n, es, i.unsigned_abs() as u128, 0, false); (if i < 0 { p.wrapping_neg() & ((1u32 << n) - 1) } else { p }) as u64 } }
        "from_f32" => from_f32_ref(32, 2, x) as u64,
        "p16_from_f32" => from_f32_ref(16, 1, x) as u64,
        "p8_from_f32" => from_f32_ref(8, 0, x) as u64,
        _ => return None,
    })
}
fn actual(op: &str, x: u32) -> u64 {
    let p = P32E2::from_bits(x);
    match op {
        "sqrt" => p.sqrt().to_bits() as u64, "round" => p.round().to_bits() as u64, "floor" => p.floor().to_bits() as u64,
        "ceil" => p.ceil().to_bits() as u64, "trunc" => p.trunc().to_bits() as u64, "fract" => p.fract().to_bits() as u64,
        "to_i32" => p.to_i32() as u32 as u64, "to_u32" => p.to_u32() as u64, "to_i64" => p.to_i64() as u64, "to_u64" => p.to_u64(),
        "to_f64" => p.to_f64().to_bits(), "to_f32" => p.to_f32().to_bits() as u64,
        "to_p16_m" => p.to_p16e1().to_bits() as u64, "to_p8_m" => p.to_p8e0().to_bits() as u64,
        "from_i32" => P32E2::from_i32(x as i32).to_bits() as u64, "from_u32" => P32E2::from_u32(x).to_bits() as u64,
        "rt_f64" => P32E2::from(f64::from(p)).to_bits() as u64,
        "rt_str" => p.to_string().parse::<P32E2>().map(|q| q.to_bits() as u64).unwrap_or(u64::MAX),
        "classify" => match p.classify() { core::num::FpCategory::Nan => 0, core::num::FpCategory::Infinite => 1, core::num::FpCategory::Zero => 2, core::num::FpCategory::Subnormal => 3, core::num::FpCategory::Normal => 4 },
        "p16_from_u64" => P16E1::from_u64(x as u64).to_bits() as u64, "p8_from_u64" => P8E0::from_u64(x as u64).to_bits() as u64,
        "p16_from_i64" => P16E1::from_i64(x as i32 as i64).to_bits() as u64, "p8_from_i64" => P8E0::from_i64(x as i32 as i64).to_bits() as u64,
        "from_f32" => P32E2::from_f32(f32::from_bits(x)).to_bits() as u64,
        "p16_from_f32" => P16E1::from_f32(f32::from_bits(x)).to_bits() as u64,
        "p8_from_f32" => P8E0::from_f32(f32::from_bits(x)).to_bits() as u64,
        _ => panic!("unknown scan op"),
    }
}
pub const OPS: &[&str] = &["sqrt", "round", "floor", "ceil", "trunc", "fract", "to_i32", "to_u32", "to_i64", "to_u64", "to_f64", "to_f32",
                           "to_p16_m", "to_p8_m", "from_i32", "from_u32", "from_f32", "p16_from_f32", "p8_from_f32",
                           "classify", "rt_f64", "rt_str", "p16_from_u64", "p16_from_i64", "p8_from_u64", "p8_from_i64", "from_u64w", "from_i64w"];

/// P32E2 from 64-bit integers cannot be enumerated: every 32-bit significand x at the shifts 1, 7, 20, 32, with and without a low sticky bit
fn scan64(op: &'static str, cap: usize) {
    let nthreads = std::thread::available_parallelism().map(|n| n.get()).unwrap_or(4).min(16) as u64;
    let total: u64 = 1 << 32;
    let mut handles = Vec::new();
    for t in 0..nthreads {
        let (lo, hi) = (t * total / nthreads, (t + 1) * total / nthreads);
        handles.push(std::thread::spawn(move || {
            let mut bad: Vec<u64> = Vec::new();
            let stride: usize = std::env::var("VERIF_SCAN_STRIDE").ok().and_then(|v| v.parse().ok()).unwrap_or(4);
            for x in (lo..hi).step_by(stride) {
                for s in [1u32, 7, 20, 32] { for st in [0u64, 1] {
                    let a: u64 = ((x as u64) << s) | st;
                    let (want, got) = if op == "from_u64w" {
                        (if a == 0 { 0 } else { enc(32, 2, a as u128, 0, false) }, std::panic::catch_unwind(|| P32E2::from_u64(a).to_bits()))
                    } else {
                        let i = a as i64;
                        (if i == 0 { 0 } else { neg32(enc(32, 2, i.unsigned_abs() as u128, 0, false), i < 0) }, std::panic::catch_unwind(|| P32E2::from_i64(i).to_bits()))
                    };
                    if !matches!(got, Ok(v) if v == want) && bad.len() < cap { bad.push(a); }
                } }
            }
            bad
        }));
    }
    let name = if op == "from_u64w" { "from_u64" } else { "from_i64" };
    let mut out = String::new();
    for h in handles { for a in h.join().unwrap() { out.push_str(&format!("p32 {} {:x}\n", name, a)); } }
    print!("{}", out);
}

pub fn scan(op: &'static str, cap: usize) {
    std::panic::set_hook(Box::new(|_| {}));
    if op == "from_u64w" || op == "from_i64w" { return scan64(op, cap); }
    let nthreads = std::thread::available_parallelism().map(|n| n.get()).unwrap_or(4).min(16) as u64;
    let total: u64 = 1 << 32;
    let mut handles = Vec::new();
    for t in 0..nthreads {
        let (lo, hi) = (t * total / nthreads, (t + 1) * total / nthreads);
        handles.push(std::thread::spawn(move || {
            let mut bad: Vec<u32> = Vec::new();
            let stride: usize = if op == "rt_str" { std::env::var("VERIF_SCAN_STRIDE").ok().and_then(|v| v.parse().ok()).unwrap_or(16) } else { 1 };
            for x in (lo..hi).step_by(stride) {
                let x = x as u32;
                if let Some(want) = expect(op, x) {
                    let got = std::panic::catch_unwind(|| actual(op, x));
                    if !matches!(got, Ok(v) if v == want) && bad.len() < cap { bad.push(x); }
                }
            }
            bad
        }));
    }
    let (ty, name) = match op { "p16_from_f32" => ("p16", "from_f32"), "p8_from_f32" => ("p8", "from_f32"), "p16_from_u64" => ("p16", "from_u64"),
        "p16_from_i64" => ("p16", "from_i64"), "p8_from_u64" => ("p8", "from_u64"), "p8_from_i64" => ("p8", "from_i64"), o => ("p32", o) };
    let mut out = String::new();
    let sext = op == "p16_from_i64" || op == "p8_from_i64";
    for h in handles { for x in h.join().unwrap() { if sext { out.push_str(&format!("{} {} {:x}\n", ty, name, x as i32 as i64 as u64)); } else { out.push_str(&format!("{} {} {:x}\n", ty, name, x)); } } }
    print!("{}", out);
}
