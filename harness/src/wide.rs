//! `verif_harness --wide-scan <op-family> <log2 count> <cap>`: massive structured sampling (about 2^31 operand tuples per run) of the
//! P32E2 / P16E1 binary operations and fused multiply-adds against the exact integer reference of scan.rs.  A SEARCH.
use crate::scan::{dec, enc};
use softposit::{P16E1, P32E2, PxE2};

#[derive(Clone, Copy)]
struct V { neg: bool, m: u128, e: i32 }           // value = (-1)^neg * m * 2^e, m > 0; zero: m == 0
fn val(n: u32, es: u32, x: u32) -> Option<V> {    // None = NaR
    let nar = 1u32 << (n - 1);
    if x == nar { return None; }
    if x == 0 { return Some(V { neg: false, m: 0, e: 0 }); }
    let neg = x & nar != 0;
    let mag = if neg { x.wrapping_neg() & (((1u64 << n) - 1) as u32) } else { x };
    let (m, e) = dec(n, es, mag);
    Some(V { neg, m, e })
}
fn pack(n: u32, es: u32, neg: bool, m: u128, e: i32, sticky: bool) -> u32 {
    if m == 0 { return 0; }
    let p = enc(n, es, m, e, sticky);
    if neg { p.wrapping_neg() & (((1u64 << n) - 1) as u32) } else { p }
}
/// exact sum of two values, returned as (neg, m, e, sticky); operands far apart: the small one becomes a unit perturbation + sticky
fn add_v(a: V, b: V) -> (bool, u128, i32, bool) {
    if a.m == 0 { return (b.neg, b.m, b.e, false); }
    if b.m == 0 { return (a.neg, a.m, a.e, false); }
    let (hi, lo) = if a.e + (127 - a.m.leading_zeros() as i32) >= b.e + (127 - b.m.leading_zeros() as i32) { (a, b) } else { (b, a) };
    let room = hi.m.leading_zeros() as i32 - 2;                     // how far hi.m may be shifted left
    let d = hi.e - lo.e;
    if d >= 0 && d <= room {
        let x = (hi.m << d as u32) as i128 * if hi.neg { -1 } else { 1 } + lo.m as i128 * if lo.neg { -1 } else { 1 };
        return (x < 0, x.unsigned_abs(), lo.e, false);
    }
    if d < 0 {                                                       // lo has the smaller magnitude but the larger exponent field: shift lo
        let dd = (-d) as u32;
        let x = hi.m as i128 * if hi.neg { -1 } else { 1 } + ((lo.m << dd) as i128) * if lo.neg { -1 } else { 1 };
        return (x < 0, x.unsigned_abs(), hi.e, false);
    }
    // lo is more than `room` bits below: it only perturbs
    let sh = room as u32;
    let big = hi.m << sh;
    let lo_top = lo.e + (127 - lo.m.leading_zeros() as i32);       // lo < 2^(lo_top + 1)
    debug_assert!(lo_top + 1 < hi.e - sh as i32);
    let m = if hi.neg == lo.neg { big } else { big - 1 };
    (hi.neg, m, hi.e - sh as i32, true)
}
pub fn reference(n: u32, es: u32, op: u8, a: u32, b: u32, c: u32) -> u32 {
    let nar = 1u32 << (n - 1);
    let (va, vb) = match (val(n, es, a), val(n, es, b)) { (Some(x), Some(y)) => (x, y), _ => return nar };
    match op {
        0 | 1 => { let vb = V { neg: vb.neg != (op == 1), ..vb }; let (s, m, e, st) = add_v(va, vb); pack(n, es, s, m, e, st) }
        2 => pack(n, es, va.neg != vb.neg, va.m * vb.m, va.e + vb.e, false),
        3 => {
            if vb.m == 0 { return nar; }
            if va.m == 0 { return 0; }
            let num = va.m << 90; let q = num / vb.m; let r = num % vb.m;
            pack(n, es, va.neg != vb.neg, q, va.e - vb.e - 90, r != 0)
        }
        _ => {   // 4: a*b + c   5: a*b - c   6: c - a*b
            let vc = match val(n, es, c) { Some(x) => x, None => return nar };
            let p = V { neg: (va.neg != vb.neg) != (op == 6), m: va.m * vb.m, e: va.e + vb.e };
            let vc = V { neg: vc.neg != (op == 5), ..vc };
            let (s, m, e, st) = add_v(p, vc);
            pack(n, es, s, m, e, st)
        }
    }
}

macro_rules! with_n {
    ($n:expr, $f:ident, $($a:expr),*) => { match $n {
        8 => $f::<8>($($a),*), 12 => $f::<12>($($a),*), 16 => $f::<16>($($a),*), 20 => $f::<20>($($a),*), 24 => $f::<24>($($a),*), 26 => $f::<26>($($a),*),
        27 => $f::<27>($($a),*), 28 => $f::<28>($($a),*), 29 => $f::<29>($($a),*), 30 => $f::<30>($($a),*), 31 => $f::<31>($($a),*), _ => $f::<32>($($a),*) } }
}
const PX_WIDTHS: [u32; 12] = [8, 12, 16, 20, 24, 26, 27, 28, 29, 30, 31, 32];
fn px2_fma<const N: u32>(op: u8, a: u32, b: u32, c: u32) -> u32 {
    let (x, y, z) = (PxE2::<N>::from_bits(a), PxE2::<N>::from_bits(b), PxE2::<N>::from_bits(c));
    match op { 4 => x.mul_add(y, z), 5 => x.mul_sub(y, z), _ => z.sub_product(x, y) }.to_bits()
}
/// an addend whose half-ulp lies at (or one or two binades around) the leading bit of the exact product a*b: the product then decides a
/// tie of the addend's rounding, with everything below its leading bit acting as sticky
fn halfulp_addend(n: u32, es: u32, a: u32, b: u32, r: &mut Rng) -> u32 {
    let mask = ((1u64 << n) - 1) as u32;
    let (va, vb) = match (val(n, es, a), val(n, es, b)) { (Some(x), Some(y)) if x.m != 0 && y.m != 0 => (x, y), _ => return (r.next() as u32) & mask };
    let pm = va.m * vb.m; let lp = 127 - pm.leading_zeros() as i32 + va.e + vb.e;      // scale of the product
    let mut fb = n as i32 - 1 - es as i32 - 2;
    let mut sc = 0i32;
    for _ in 0..3 {
        sc = lp + 1 + fb + ((r.next() % 3) as i32 - 1);
        let k = sc >> es; let reglen = if k >= 0 { k + 2 } else { -k + 1 };
        fb = (n as i32 - 1 - reglen - es as i32).max(0);
    }
    let frac = if fb > 0 { (r.next() as u128) & ((1u128 << fb as u32) - 1) } else { 0 };
    let p = enc(n, es, (1u128 << fb as u32) | frac, sc - fb, false);
    if r.next() & 1 == 0 { p } else { p.wrapping_neg() & mask }
}

/// a partner b whose significand is floor or ceil of 2^u / significand(a): the exact product a*b is 2^u -/+ (something below the
/// size of a's significand), i.e. it has a long run of ones or zeros after its leading bit - the products that random operands never give
fn recip_partner(n: u32, es: u32, a: u32, r: &mut Rng) -> u32 {
    let mask = ((1u64 << n) - 1) as u32;
    let va = match val(n, es, a) { Some(x) if x.m > 1 => x, _ => return interesting(n, r) };
    let la = 127 - va.m.leading_zeros();                       // bits(m_a) - 1
    let maxfb = n - 1 - es - 2;                                // longest fraction of the format
    let t = r.next();
    let lb = 1 + (t % maxfb as u64) as u32;                    // wanted bits(m_b) - 1
    let u = la + lb + 1;
    let mut mb = (1u128 << u) / va.m + ((t >> 20) & 1) as u128;
    if mb == 0 { mb = 1; }
    let e = ((t >> 24) % 41) as i32 - 20 - (127 - mb.leading_zeros() as i32);
    let p = enc(n, es, mb, e, false);
    if (t >> 40) & 1 == 0 { p } else { p.wrapping_neg() & mask }
}

struct Rng(u64);
impl Rng { fn next(&mut self) -> u64 { self.0 ^= self.0 << 13; self.0 ^= self.0 >> 7; self.0 ^= self.0 << 17; self.0 } }

fn interesting(n: u32, r: &mut Rng) -> u32 {
    let mask = ((1u64 << n) - 1) as u32;
    let t = r.next();
    let k = (t >> 8) % (n as u64 - 1);
    let base: u32 = match t & 7 {
        0 => 1 << k,                                   // single bit (regime boundaries)
        1 => (mask >> 1) >> k,                         // low ones
        2 => ((mask >> 1) >> k) << k,                  // high ones (long positive regimes)
        3 => (1 << (n - 2)) | (1 << k),               // one + one fraction/exp bit
        4 => (1u32 << (n - 2)).wrapping_sub(1u32 << k),
        5 => (r.next() as u32) & (mask >> 1) & !((1u32 << k) - 1),   // random with k low zero bits
        6 => ((r.next() as u32) & (mask >> 1)) | ((1u32 << k) - 1),  // random with k low one bits
        _ => (r.next() as u32) & (mask >> 1),
    };
    let base = base & (mask >> 1);
    if (t >> 40) & 1 == 1 { base.wrapping_neg() & mask } else { base }
}

pub fn wide_scan(fam: &str, log2: u32, cap: usize, seed: u64) {
    std::panic::set_hook(Box::new(|_| {}));
    let (n0, es) = if fam.starts_with("p16") { (16u32, 1u32) } else { (32, 2) };
    let fma = fam.ends_with("fma");
    let px = fam.starts_with("px2");
    let nthreads = std::thread::available_parallelism().map(|x| x.get()).unwrap_or(4).min(16) as u64;
    let per = (1u64 << log2) / nthreads;
    let mut handles = Vec::new();
    for t in 0..nthreads {
        let fam = fam.to_string();
        handles.push(std::thread::spawn(move || {
            let mut r = Rng((0x9E3779B97F4A7C15 ^ (t + 1).wrapping_mul(0xD1B54A32D192ED03) ^ seed.wrapping_mul(0x2545F4914F6CDD1D)) | 1);
            let mut bad: Vec<String> = Vec::new();
            let mut i = 0u64;
            while i < per {
                let n = if px { PX_WIDTHS[(r.next() % 12) as usize] } else { n0 };
                let mask = ((1u64 << n) - 1) as u32;
                let a = if r.next() & 1 == 0 { (r.next() as u32) & mask } else { interesting(n, &mut r) };
                // partner: random / interesting / near a / near -a
                let bsel = r.next();
                let b = match bsel & 7 {
                    0 => (r.next() as u32) & mask,
                    1 => recip_partner(n, es, a, &mut r),
                    2 | 3 => if bsel & 8 == 0 { interesting(n, &mut r) } else { recip_partner(n, es, a, &mut r) },
                    4 => a.wrapping_add(((bsel >> 8) % 9) as u32).wrapping_sub(4) & mask,
                    5 => a.wrapping_neg().wrapping_add(((bsel >> 8) % 9) as u32).wrapping_sub(4) & mask,
                    6 => (a ^ (1u32 << ((bsel >> 8) % (n as u64 - 1)))) & mask,
                    _ => (a.wrapping_neg() ^ (1u32 << ((bsel >> 8) % (n as u64 - 1)))) & mask,
                };
                if !fma {
                    for op in 0..4u8 {
                        let want = reference(n, es, op, a, b, 0);
                        let got = std::panic::catch_unwind(|| if n == 32 {
                            let (x, y) = (P32E2::from_bits(a), P32E2::from_bits(b));
                            match op { 0 => x + y, 1 => x - y, 2 => x * y, _ => x / y }.to_bits()
                        } else {
                            let (x, y) = (P16E1::from_bits(a as u16), P16E1::from_bits(b as u16));
                            match op { 0 => x + y, 1 => x - y, 2 => x * y, _ => x / y }.to_bits() as u32
                        });
                        if !matches!(got, Ok(v) if v == want) && bad.len() < cap {
                            bad.push(format!("p{} {} {:x} {:x}", n, ["add", "sub", "mul", "div"][op as usize], a, b));
                        }
                    }
                    i += 4;
                } else {
                    // addend: random / interesting / the rounded product negated and its neighbours (cancellation) / far below the product
                    let prod = reference(n, es, 2, a, b, 0);
                    let csel = r.next();
                    let c = match csel & 7 {
                        0 => if csel & 8 == 0 { (r.next() as u32) & mask } else { halfulp_addend(n, es, a, b, &mut r) },
                        1 => halfulp_addend(n, es, a, b, &mut r),
                        2 => interesting(n, &mut r),
                        3 | 4 => prod.wrapping_neg().wrapping_add(((csel >> 8) % 9) as u32).wrapping_sub(4) & mask,
                        5 => prod.wrapping_add(((csel >> 8) % 9) as u32).wrapping_sub(4) & mask,
                        6 => (prod.wrapping_neg() ^ (1u32 << ((csel >> 8) % (n as u64 - 1)))) & mask,
                        _ => (prod ^ (1u32 << ((csel >> 8) % (n as u64 - 1)))) & mask,
                    };
                    for op in 4..7u8 {
                        let want = reference(n, es, op, a, b, c);
                        let got = std::panic::catch_unwind(|| if px {
                            let sh = 32 - n; with_n!(n, px2_fma, op, a << sh, b << sh, c << sh) >> sh
                        } else if n == 32 {
                            let (x, y, z) = (P32E2::from_bits(a), P32E2::from_bits(b), P32E2::from_bits(c));
                            match op { 4 => x.mul_add(y, z), 5 => x.mul_sub(y, z), _ => z.sub_product(x, y) }.to_bits()
                        } else {
                            let (x, y, z) = (P16E1::from_bits(a as u16), P16E1::from_bits(b as u16), P16E1::from_bits(c as u16));
                            match op { 4 => x.mul_add(y, z), 5 => x.mul_sub(y, z), _ => z.sub_product(x, y) }.to_bits() as u32
                        });
                        if !matches!(got, Ok(v) if v == want) && bad.len() < cap {
                            if px { let sh = 32 - n; bad.push(format!("px2 {} {:x} {:x} {:x} {:x}", ["mul_add", "mul_sub", "sub_product"][op as usize - 4], n, a << sh, b << sh, c << sh)); }
                            else { bad.push(format!("p{} {} {:x} {:x} {:x}", n, ["mul_add", "mul_sub", "sub_product"][op as usize - 4], a, b, c)); }
                        }
                    }
                    i += 3;
                }
            }
            let _ = fam;
            bad
        }));
    }
    let mut out = String::new();
    for h in handles { for l in h.join().unwrap() { out.push_str(&l); out.push('\n'); } }
    print!("{}", out);
}
