//! Operation families whose inputs are not three scalars (quire histories, generic widths, polynomials, sampling).
#![allow(unused_imports, unused_macros)]
use softposit::*;

fn hx(s: &str) -> u64 {
    u64::from_str_radix(s, 16).unwrap()
}

/// quire history: tokens
///   ap a b | sp a b        q += (a,b) / q -= (a,b)
///   a1 a | s1 a            q += a / q -= a
///   ap2 x a b | sp2 x a b  q += (x,(a,b))
///   ap3 x a b c            q += (x,(a,b,c))
///   ap22 a b c d | sp22    q += ((a,b),(c,d))
///   apa x n p.. | spa      q += (x,[p;n])  n in 1..=4
///   mp a b | ms a b        q.add_product(a,b) / q.sub_product(a,b)      (inherent methods)
///   tp a b | ts a b        Quire::add_product / Quire::sub_product       (trait methods)
///   fp a                   q = Q::from_posit(a)
///   neg | clear | rt       q.neg() / q.clear() / q = from_bits(to_bits(q))
/// result: "<to_posit> <is_zero> <is_nar> <bits> <p1>,<p2> <p1>,<p2>,<p3>"
macro_rules! quire_hist {
    ($Q:ty, $P:ty, $U:ty, $v:expr, $fmtbits:expr, $clone:expr, $load:expr) => {{
        let v: &[&str] = $v;
        let p = |s: &str| <$P>::from_bits(hx(s) as $U);
        let mut q = <$Q>::init();
        let mut i = 2;
        while i < v.len() {
            match v[i] {
                "ap" => { q += (p(v[i + 1]), p(v[i + 2])); i += 3; }
                "sp" => { q -= (p(v[i + 1]), p(v[i + 2])); i += 3; }
                "a1" => { q += p(v[i + 1]); i += 2; }
                "s1" => { q -= p(v[i + 1]); i += 2; }
                "ap2" => { q += (p(v[i + 1]), (p(v[i + 2]), p(v[i + 3]))); i += 4; }
                "sp2" => { q -= (p(v[i + 1]), (p(v[i + 2]), p(v[i + 3]))); i += 4; }
                "ap3" => { q += (p(v[i + 1]), (p(v[i + 2]), p(v[i + 3]), p(v[i + 4]))); i += 5; }
                "ap22" => { q += ((p(v[i + 1]), p(v[i + 2])), (p(v[i + 3]), p(v[i + 4]))); i += 5; }
                "sp22" => { q -= ((p(v[i + 1]), p(v[i + 2])), (p(v[i + 3]), p(v[i + 4]))); i += 5; }
                "apa" | "spa" => {
                    let x = p(v[i + 1]);
                    let n = hx(v[i + 2]) as usize;
                    let add = v[i] == "apa";
                    match n {
                        1 => { let a = [p(v[i + 3])]; if add { q += (x, a) } else { q -= (x, a) } }
                        2 => { let a = [p(v[i + 3]), p(v[i + 4])]; if add { q += (x, a) } else { q -= (x, a) } }
                        3 => { let a = [p(v[i + 3]), p(v[i + 4]), p(v[i + 5])]; if add { q += (x, a) } else { q -= (x, a) } }
                        4 => { let a = [p(v[i + 3]), p(v[i + 4]), p(v[i + 5]), p(v[i + 6])]; if add { q += (x, a) } else { q -= (x, a) } }
                        _ => panic!("bad array length"),
                    }
                    i += 3 + n;
                }
                "mp" => { q.add_product(p(v[i + 1]), p(v[i + 2])); i += 3; }
                "ms" => { q.sub_product(p(v[i + 1]), p(v[i + 2])); i += 3; }
                "tp" => { <$Q as Quire<$P>>::add_product(&mut q, p(v[i + 1]), p(v[i + 2])); i += 3; }
                "ts" => { <$Q as Quire<$P>>::sub_product(&mut q, p(v[i + 1]), p(v[i + 2])); i += 3; }
                "fp" => { q = <$Q>::from_posit(p(v[i + 1])); i += 2; }
                "neg" => { q.neg(); i += 1; }
                "clear" => { q.clear(); i += 1; }
                "rt" => { q = <$Q>::from_bits(q.to_bits()); i += 1; }
                "fb" => { q = $load(v[i + 1]); i += 2; }
                t => panic!("bad token {}", t),
            }
        }
        let tp = q.to_posit();
        let z = q.is_zero() as u8;
        let n = q.is_nar() as u8;
        let bits = $fmtbits(&q);
        let (a, b) = $clone(&q).into_two_posits();
        let (c, d, e) = $clone(&q).into_three_posits();
        format!("{:x} {} {} {} {:x},{:x} {:x},{:x},{:x}", tp.to_bits(), z, n, bits, a.to_bits(), b.to_bits(), c.to_bits(), d.to_bits(), e.to_bits())
    }};
}


/// `q32 histpx <N> tokens...`: the same history grammar on Q32E2 with PxE2<N> operands (operator impls, arrays, the
/// `Quire<PxE2<N>>` trait methods); result: "<PxE2::from(&q)> <Quire::to_posit(&q)> <PxE2::from(q)> <is_nar>"
fn histpx<const N: u32>(v: &[&str]) -> String {
    let p = |s: &str| PxE2::<N>::from_bits(hx(s) as u32);
    let mut q = Q32E2::init();
    let mut i = 3;
    while i < v.len() {
        match v[i] {
            "ap" => { q += (p(v[i + 1]), p(v[i + 2])); i += 3; }
            "sp" => { q -= (p(v[i + 1]), p(v[i + 2])); i += 3; }
            "a1" => { q += p(v[i + 1]); i += 2; }
            "s1" => { q -= p(v[i + 1]); i += 2; }
            "ap2" => { q += (p(v[i + 1]), (p(v[i + 2]), p(v[i + 3]))); i += 4; }
            "sp2" => { q -= (p(v[i + 1]), (p(v[i + 2]), p(v[i + 3]))); i += 4; }
            "ap3" => { q += (p(v[i + 1]), (p(v[i + 2]), p(v[i + 3]), p(v[i + 4]))); i += 5; }
            "ap22" => { q += ((p(v[i + 1]), p(v[i + 2])), (p(v[i + 3]), p(v[i + 4]))); i += 5; }
            "sp22" => { q -= ((p(v[i + 1]), p(v[i + 2])), (p(v[i + 3]), p(v[i + 4]))); i += 5; }
            "apa" | "spa" => {
                let x = p(v[i + 1]);
                let n = hx(v[i + 2]) as usize;
                let add = v[i] == "apa";
                match n {
                    1 => { let a = [p(v[i + 3])]; if add { q += (x, a) } else { q -= (x, a) } }
                    2 => { let a = [p(v[i + 3]), p(v[i + 4])]; if add { q += (x, a) } else { q -= (x, a) } }
                    3 => { let a = [p(v[i + 3]), p(v[i + 4]), p(v[i + 5])]; if add { q += (x, a) } else { q -= (x, a) } }
                    4 => { let a = [p(v[i + 3]), p(v[i + 4]), p(v[i + 5]), p(v[i + 6])]; if add { q += (x, a) } else { q -= (x, a) } }
                    _ => panic!("bad array length"),
                }
                i += 3 + n;
            }
            "tp" => { <Q32E2 as Quire<PxE2<N>>>::add_product(&mut q, p(v[i + 1]), p(v[i + 2])); i += 3; }
            "ts" => { <Q32E2 as Quire<PxE2<N>>>::sub_product(&mut q, p(v[i + 1]), p(v[i + 2])); i += 3; }
            "fp" => { q = <Q32E2 as Quire<PxE2<N>>>::from_posit(p(v[i + 1])); i += 2; }
            "neg" => { q.neg(); i += 1; }
            "clear" => { q.clear(); i += 1; }
            "rt" => { q = Q32E2::from_bits(q.to_bits()); i += 1; }
            t => panic!("bad token {}", t),
        }
    }
    let r1 = PxE2::<N>::from(&q);
    let r2: PxE2<N> = <Q32E2 as Quire<PxE2<N>>>::to_posit(&q);
    let n = q.is_nar() as u8;
    let r3 = PxE2::<N>::from(Q32E2::from_bits(q.to_bits()));
    format!("{:x} {:x} {:x} {}", r1.to_bits(), r2.to_bits(), r3.to_bits(), n)
}
fn run_histpx(v: &[&str]) -> String {
    macro_rules! disp { ($($n:literal)*) => { match hx(v[2]) as u32 { $($n => histpx::<$n>(v),)* _ => panic!("bad width") } } }
    disp!(2 3 4 5 6 7 8 9 10 11 12 13 14 15 16 17 18 19 20 21 22 23 24 25 26 27 28 29 30 31 32)
}

/// `<ty> poly <deg|3a|4a> x c0 c1 ...` : Polynom::polyN with coefficients highest degree first
macro_rules! poly {
    ($P:ty, $U:ty, $v:expr) => {{
        let v: &[&str] = $v;
        let x = <$P>::from_bits(hx(v[3]) as $U);
        let c: Vec<$P> = v[4..].iter().map(|s| <$P>::from_bits(hx(s) as $U)).collect();
        let r: $P = match v[2] {
            "1" => { let a: [$P; 2] = c.as_slice().try_into().expect("coefficient count"); x.poly1(&a) }
            "2" => { let a: [$P; 3] = c.as_slice().try_into().expect("coefficient count"); x.poly2(&a) }
            "3" => { let a: [$P; 4] = c.as_slice().try_into().expect("coefficient count"); x.poly3(&a) }
            "4" => { let a: [$P; 5] = c.as_slice().try_into().expect("coefficient count"); x.poly4(&a) }
            "5" => { let a: [$P; 6] = c.as_slice().try_into().expect("coefficient count"); x.poly5(&a) }
            "6" => { let a: [$P; 7] = c.as_slice().try_into().expect("coefficient count"); x.poly6(&a) }
            "7" => { let a: [$P; 8] = c.as_slice().try_into().expect("coefficient count"); x.poly7(&a) }
            "8" => { let a: [$P; 9] = c.as_slice().try_into().expect("coefficient count"); x.poly8(&a) }
            "9" => { let a: [$P; 10] = c.as_slice().try_into().expect("coefficient count"); x.poly9(&a) }
            "10" => { let a: [$P; 11] = c.as_slice().try_into().expect("coefficient count"); x.poly10(&a) }
            "11" => { let a: [$P; 12] = c.as_slice().try_into().expect("coefficient count"); x.poly11(&a) }
            "12" => { let a: [$P; 13] = c.as_slice().try_into().expect("coefficient count"); x.poly12(&a) }
            "13" => { let a: [$P; 14] = c.as_slice().try_into().expect("coefficient count"); x.poly13(&a) }
            "14" => { let a: [$P; 15] = c.as_slice().try_into().expect("coefficient count"); x.poly14(&a) }
            "15" => { let a: [$P; 16] = c.as_slice().try_into().expect("coefficient count"); x.poly15(&a) }
            "16" => { let a: [$P; 17] = c.as_slice().try_into().expect("coefficient count"); x.poly16(&a) }
            "17" => { let a: [$P; 18] = c.as_slice().try_into().expect("coefficient count"); x.poly17(&a) }
            "18" => { let a: [$P; 19] = c.as_slice().try_into().expect("coefficient count"); x.poly18(&a) }
            "3a" => { let a: [$P; 4] = c.as_slice().try_into().expect("coefficient count"); x.poly3a(&a) }
            "4a" => { let a: [$P; 5] = c.as_slice().try_into().expect("coefficient count"); x.poly4a(&a) }
            d => panic!("bad degree {}", d),
        };
        format!("{:x}", r.to_bits())
    }};
}

/// RNG that replays a fixed list of raw u32 outputs (cyclically)
struct Replay { v: Vec<u32>, i: usize }
impl rand::RngCore for Replay {
    // replay the list, then continue with a Weyl sequence so that rand's rejection sampling always terminates
    fn next_u32(&mut self) -> u32 { let x = if self.i < self.v.len() { self.v[self.i] } else { (self.i as u32).wrapping_mul(0x9E37_79B9) }; self.i += 1; x }
    fn next_u64(&mut self) -> u64 { let lo = self.next_u32() as u64; let hi = self.next_u32() as u64; (hi << 32) | lo }
    fn fill_bytes(&mut self, dest: &mut [u8]) { for b in dest.iter_mut() { *b = self.next_u32() as u8; } }
    fn try_fill_bytes(&mut self, dest: &mut [u8]) -> Result<(), rand::Error> { self.fill_bytes(dest); Ok(()) }
}

pub fn run(v: &[&str]) -> Option<String> {
    use rand::{Rng, SeedableRng};
    match (v[0], v[1]) {
        // sample through a seeded StdRng (what users do)
        ("p8", "poly") => Some(poly!(P8E0, u8, v)),
        ("p16", "poly") => Some(poly!(P16E1, u16, v)),
        ("p32", "poly") => Some(poly!(P32E2, u32, v)),
        ("p8", "sample_seed") => { let mut g = rand::rngs::StdRng::seed_from_u64(hx(v[2])); let p: P8E0 = g.gen(); Some(format!("{:x}", p.to_bits())) }
        ("p16", "sample_seed") => { let mut g = rand::rngs::StdRng::seed_from_u64(hx(v[2])); let p: P16E1 = g.gen(); Some(format!("{:x}", p.to_bits())) }
        ("p32", "sample_seed") => { let mut g = rand::rngs::StdRng::seed_from_u64(hx(v[2])); let p: P32E2 = g.gen(); Some(format!("{:x}", p.to_bits())) }
        // sample through a generator that replays the given raw 32-bit outputs (edge streams: all-zero, all-ones, ...)
        ("p8", "sample_raw") => { let mut g = Replay { v: v[2..].iter().map(|s| hx(s) as u32).collect(), i: 0 }; let p: P8E0 = g.gen(); Some(format!("{:x}", p.to_bits())) }
        ("p16", "sample_raw") => { let mut g = Replay { v: v[2..].iter().map(|s| hx(s) as u32).collect(), i: 0 }; let p: P16E1 = g.gen(); Some(format!("{:x}", p.to_bits())) }
        ("p32", "sample_raw") => { let mut g = Replay { v: v[2..].iter().map(|s| hx(s) as u32).collect(), i: 0 }; let p: P32E2 = g.gen(); Some(format!("{:x}", p.to_bits())) }
        // the private helper behind P16E1 sampling, through the --cfg softposit_verif hook
        ("p16", "sub_one") => Some(format!("{:x}", P16E1::verif_sub_one(hx(v[2]) as u32).to_bits())),
        ("q32", "histpx") => Some(run_histpx(v)),
        ("q8", "hist") => Some(quire_hist!(Q8E0, P8E0, u8, v, |q: &Q8E0| format!("{:08x}", q.to_bits()), |q: &Q8E0| Q8E0::from_bits(q.to_bits()), |h: &str| Q8E0::from_bits(u128::from_str_radix(h, 16).unwrap() as u32))),
        ("q16", "hist") => Some(quire_hist!(Q16E1, P16E1, u16, v, |q: &Q16E1| format!("{:032x}", q.to_bits()), |q: &Q16E1| Q16E1::from_bits(q.to_bits()), |h: &str| Q16E1::from_bits(u128::from_str_radix(h, 16).unwrap()))),
        ("q32", "hist") => Some(quire_hist!(Q32E2, P32E2, u32, v,
            |q: &Q32E2| q.to_bits().iter().map(|x| format!("{:016x}", x)).collect::<String>(), |q: &Q32E2| Q32E2::from_bits(q.to_bits()), |h: &str| { let z = format!("{:0>128}", h); let mut w = [0u64; 8]; for k in 0..8 { w[k] = u64::from_str_radix(&z[16 * k..16 * k + 16], 16).unwrap(); } Q32E2::from_bits(w) })),
        _ => None,
    }
}
