//! Operation families whose inputs are not three scalars (quire histories, generic widths, polynomials, sampling).
#![allow(unused_imports)]
use softposit::*;

pub fn run(_v: &[&str]) -> Option<String> {
    None
}
