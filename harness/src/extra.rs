//! Operation families whose inputs are not three scalars (quire histories, generic widths, polynomials, sampling).
#![allow(unused_imports, unused_macros)]
use softposit::*;

fn hx(s: &str) -> u64 {
    u64::from_str_radix(s, 16).unwrap()
}

/// quire history: tokens
///   ap a b | sp a b        q += (a,b) / q -= (a,b)
///   a1 a | s1 a            q += a / q -= a
///   ap2 x a b | sp2 x a b  q += (x,(a,b))
///   ap3 x a b c            q += (x,(a,b,c))
///   ap22 a b c d | sp22    q += ((a,b),(c,d))
///   apa x n p.. | spa      q += (x,[p;n])  n in 1..=4
///   mp a b | ms a b        q.add_product(a,b) / q.sub_product(a,b)      (inherent methods)
///   tp a b | ts a b        Quire::add_product / Quire::sub_product       (trait methods)
///   fp a                   q = Q::from_posit(a)
///   neg | clear | rt       q.neg() / q.clear() / q = from_bits(to_bits(q))
/// result: "<to_posit> <is_zero> <is_nar> <bits> <p1>,<p2> <p1>,<p2>,<p3>"
macro_rules! quire_hist {
    ($Q:ty, $P:ty, $U:ty, $v:expr, $fmtbits:expr, $clone:expr) => {{
        let v: &[&str] = $v;
        let p = |s: &str| <$P>::from_bits(hx(s) as $U);
        let mut q = <$Q>::init();
        let mut i = 2;
        while i < v.len() {
            match v[i] {
                "ap" => { q += (p(v[i + 1]), p(v[i + 2])); i += 3; }
                "sp" => { q -= (p(v[i + 1]), p(v[i + 2])); i += 3; }
                "a1" => { q += p(v[i + 1]); i += 2; }
                "s1" => { q -= p(v[i + 1]); i += 2; }
                "ap2" => { q += (p(v[i + 1]), (p(v[i + 2]), p(v[i + 3]))); i += 4; }
                "sp2" => { q -= (p(v[i + 1]), (p(v[i + 2]), p(v[i + 3]))); i += 4; }
                "ap3" => { q += (p(v[i + 1]), (p(v[i + 2]), p(v[i + 3]), p(v[i + 4]))); i += 5; }
                "ap22" => { q += ((p(v[i + 1]), p(v[i + 2])), (p(v[i + 3]), p(v[i + 4]))); i += 5; }
                "sp22" => { q -= ((p(v[i + 1]), p(v[i + 2])), (p(v[i + 3]), p(v[i + 4]))); i += 5; }
                "apa" | "spa" => {
                    let x = p(v[i + 1]);
                    let n = hx(v[i + 2]) as usize;
                    let add = v[i] == "apa";
                    match n {
                        1 => { let a = [p(v[i + 3])]; if add { q += (x, a) } else { q -= (x, a) } }
                        2 => { let a = [p(v[i + 3]), p(v[i + 4])]; if add { q += (x, a) } else { q -= (x, a) } }
                        3 => { let a = [p(v[i + 3]), p(v[i + 4]), p(v[i + 5])]; if add { q += (x, a) } else { q -= (x, a) } }
                        4 => { let a = [p(v[i + 3]), p(v[i + 4]), p(v[i + 5]), p(v[i + 6])]; if add { q += (x, a) } else { q -= (x, a) } }
                        _ => panic!("bad array length"),
                    }
                    i += 3 + n;
                }
                "mp" => { q.add_product(p(v[i + 1]), p(v[i + 2])); i += 3; }
                "ms" => { q.sub_product(p(v[i + 1]), p(v[i + 2])); i += 3; }
                "tp" => { <$Q as Quire<$P>>::add_product(&mut q, p(v[i + 1]), p(v[i + 2])); i += 3; }
                "ts" => { <$Q as Quire<$P>>::sub_product(&mut q, p(v[i + 1]), p(v[i + 2])); i += 3; }
                "fp" => { q = <$Q>::from_posit(p(v[i + 1])); i += 2; }
                "neg" => { q.neg(); i += 1; }
                "clear" => { q.clear(); i += 1; }
                "rt" => { q = <$Q>::from_bits(q.to_bits()); i += 1; }
                t => panic!("bad token {}", t),
            }
        }
        let tp = q.to_posit();
        let z = q.is_zero() as u8;
        let n = q.is_nar() as u8;
        let bits = $fmtbits(&q);
        let (a, b) = $clone(&q).into_two_posits();
        let (c, d, e) = $clone(&q).into_three_posits();
        format!("{:x} {} {} {} {:x},{:x} {:x},{:x},{:x}", tp.to_bits(), z, n, bits, a.to_bits(), b.to_bits(), c.to_bits(), d.to_bits(), e.to_bits())
    }};
}

pub fn run(v: &[&str]) -> Option<String> {
    match (v[0], v[1]) {
        ("q8", "hist") => Some(quire_hist!(Q8E0, P8E0, u8, v, |q: &Q8E0| format!("{:08x}", q.to_bits()), |q: &Q8E0| Q8E0::from_bits(q.to_bits()))),
        ("q16", "hist") => Some(quire_hist!(Q16E1, P16E1, u16, v, |q: &Q16E1| format!("{:032x}", q.to_bits()), |q: &Q16E1| Q16E1::from_bits(q.to_bits()))),
        ("q32", "hist") => Some(quire_hist!(Q32E2, P32E2, u32, v,
            |q: &Q32E2| q.to_bits().iter().map(|x| format!("{:016x}", x)).collect::<String>(), |q: &Q32E2| Q32E2::from_bits(q.to_bits()))),
        _ => None,
    }
}
