//! Correspondence harness: runs the REAL softposit crate (built from /repo's working tree) on inputs read from
//! stdin, one operation per line, and prints `<line> => <hex result>|PANIC`.  Built in two profiles
//! (dev = overflow checks on, release = off).  A watchdog turns a non-terminating call into exit code 3 with the
//! offending line number on stderr (`TIMEOUT <n>`), so non-termination is an observed outcome, not a hang.
mod ops_gen;
mod extra;
mod hard;
mod hard16;
mod scan;
mod wide;
mod pxscan;
use std::io::{self, BufRead, Write};
use std::panic::{catch_unwind, AssertUnwindSafe};
use std::sync::atomic::{AtomicU64, Ordering};
use std::sync::Arc;

fn main() {
    let argv: Vec<String> = std::env::args().collect();
    if argv.len() == 4 && argv[1] == "--scan" {
        let op = scan::OPS.iter().find(|o| **o == argv[2]).expect("unknown scan op");
        scan::scan(op, argv[3].parse().unwrap());
        return;
    }
    if argv.len() == 5 && argv[1] == "--px-scan" {
        pxscan::px_scan(&argv[2], argv[3].parse().unwrap(), argv[4].parse().unwrap());
        return;
    }
    if argv.len() == 6 && argv[1] == "--wide-scan" {
        wide::wide_scan(&argv[2], argv[3].parse().unwrap(), argv[4].parse().unwrap(), argv[5].parse().unwrap());
        return;
    }
    if argv.len() == 4 && argv[1] == "--p16-scan" {
        hard16::p16_scan(argv[2].parse().unwrap(), argv[3].parse().unwrap());
        return;
    }
    if argv.len() == 3 && argv[1] == "--sqrt-scan" {
        hard::sqrt_scan(argv[2].parse().unwrap());
        return;
    }
    if argv.len() == 3 && argv[1] == "--sqrt-hard" {
        hard::sqrt_hard(argv[2].parse().unwrap());
        return;
    }
    if std::env::var("VERIF_PANIC_MSG").is_err() {
        std::panic::set_hook(Box::new(|_| {})); // silent unless VERIF_PANIC_MSG is set (debugging aid)
    }
    let cur = Arc::new(AtomicU64::new(0)); // (line number << 1) | busy
    let stamp = Arc::new(AtomicU64::new(0));
    {
        let cur = cur.clone();
        let stamp = stamp.clone();
        std::thread::spawn(move || {
            let mut last = (0u64, 0u64);
            let mut since = std::time::Instant::now();
            loop {
                std::thread::sleep(std::time::Duration::from_millis(100));
                let now = (cur.load(Ordering::SeqCst), stamp.load(Ordering::SeqCst));
                if now != last {
                    last = now;
                    since = std::time::Instant::now();
                } else if now.0 & 1 == 1 && since.elapsed().as_millis() >= 1500 {
                    eprintln!("TIMEOUT {}", now.0 >> 1);
                    std::process::exit(3);
                }
            }
        });
    }
    let stdin = io::stdin();
    let out = io::stdout();
    let mut out = io::BufWriter::with_capacity(1 << 20, out.lock());
    let mut n: u64 = 0;
    for line in stdin.lock().lines() {
        let line = line.unwrap();
        let v: Vec<&str> = line.split_whitespace().collect();
        if v.len() < 2 {
            continue;
        }
        cur.store((n << 1) | 1, Ordering::SeqCst);
        stamp.fetch_add(1, Ordering::SeqCst);
        let r = catch_unwind(AssertUnwindSafe(|| {
            if let Some(s) = extra::run(&v) {
                return Some(s);
            }
            let g = |i: usize| -> u64 {
                if v.len() > i {
                    u64::from_str_radix(v[i], 16).unwrap()
                } else {
                    0
                }
            };
            ops_gen::run(v[0], v[1], g(2), g(3), g(4), g(5)).map(|r| format!("{:x}", r))
        }));
        cur.store(n << 1, Ordering::SeqCst);
        match r {
            Ok(Some(s)) => writeln!(out, "{} => {}", line, s).unwrap(),
            Ok(None) => writeln!(out, "{} => UNSUPPORTED", line).unwrap(),
            Err(_) => writeln!(out, "{} => PANIC", line).unwrap(),
        }
        n += 1;
    }
    out.flush().unwrap();
}
