//! `verif_harness --px-scan <family> <cap>`: the generic-width types on their WHOLE input space for every width:
//!   px2-unary / px1-unary : every N in 2..=32, every N-bit pattern: to_f64, to_f32, to_p32/p16/p8, to_i32/u32/i64/u64 (and sqrt for PxE2)
//!   px2-binary / px1-binary: every N in 2..=NB, every operand pair: + - * /        (NB = 14 in the quick tier, 16 in the thorough tier)
//! against the exact integer reference of scan.rs / wide.rs.  A SEARCH: disagreements are printed as protocol lines for the specification.
use crate::scan::{dec, enc};
use crate::wide::reference;
use softposit::{PxE1, PxE2};

macro_rules! with_n {
    ($n:expr, $f:ident, $($a:expr),*) => { match $n {
        2 => $f::<2>($($a),*), 3 => $f::<3>($($a),*), 4 => $f::<4>($($a),*), 5 => $f::<5>($($a),*), 6 => $f::<6>($($a),*), 7 => $f::<7>($($a),*),
        8 => $f::<8>($($a),*), 9 => $f::<9>($($a),*), 10 => $f::<10>($($a),*), 11 => $f::<11>($($a),*), 12 => $f::<12>($($a),*), 13 => $f::<13>($($a),*),
        14 => $f::<14>($($a),*), 15 => $f::<15>($($a),*), 16 => $f::<16>($($a),*), 17 => $f::<17>($($a),*), 18 => $f::<18>($($a),*), 19 => $f::<19>($($a),*),
        20 => $f::<20>($($a),*), 21 => $f::<21>($($a),*), 22 => $f::<22>($($a),*), 23 => $f::<23>($($a),*), 24 => $f::<24>($($a),*), 25 => $f::<25>($($a),*),
        26 => $f::<26>($($a),*), 27 => $f::<27>($($a),*), 28 => $f::<28>($($a),*), 29 => $f::<29>($($a),*), 30 => $f::<30>($($a),*), 31 => $f::<31>($($a),*),
        _ => $f::<32>($($a),*) } }
}
const UN: &[&str] = &["to_f64", "to_f32", "to_p32_m", "to_p16_m", "to_p8_m", "to_i32", "to_u32", "to_i64", "to_u64", "sqrt"];

fn rne(m: u128, e: i32) -> u128 {
    if e >= 0 { return m << e as u32; }
    let sh = (-e) as u32;
    if sh >= 127 { return 0; }
    let ip = m >> sh; let guard = (m >> (sh - 1)) & 1; let rest = m & ((1u128 << (sh - 1)) - 1) != 0;
    if guard == 1 && (rest || ip & 1 == 1) { ip + 1 } else { ip }
}
fn isqrt(w: u128) -> u128 {
    if w == 0 { return 0; }
    let mut r = (w as f64).sqrt() as u128;
    while r * r > w { r -= 1; }
    while (r + 1) * (r + 1) <= w { r += 1; }
    r
}
/// expected result of unary `op` on the n-bit pattern `x` (right-aligned) of exponent size `es`; None: outside the scanned property
fn expect_un(n: u32, es: u32, op: &str, x: u32) -> Option<u64> {
    let nar = 1u32 << (n - 1);
    let mask = ((1u64 << n) - 1) as u32;
    let neg = x & nar != 0;
    let mag = if neg { x.wrapping_neg() & mask } else { x };
    let conv = |tn: u32, tes: u32| -> u64 {
        if x == 0 { return 0; }
        if x == nar { return 1u64 << (tn - 1); }
        let (m, e) = dec(n, es, mag);
        let p = enc(tn, tes, m, e, false);
        (if neg { p.wrapping_neg() & (((1u64 << tn) - 1) as u32) } else { p }) as u64
    };
    Some(match op {
        "to_p32_m" => conv(32, 2), "to_p16_m" => conv(16, 1), "to_p8_m" => conv(8, 0),
        "to_f64" | "to_f32" => {
            if x == nar { return None; }
            if x == 0 { return Some(0); }
            let (m, e) = dec(n, es, mag);
            let v = (m as f64) * (2.0f64).powi(e); let v = if neg { -v } else { v };
            if op == "to_f64" { v.to_bits() } else { (v as f32).to_bits() as u64 }
        }
        "to_i32" | "to_u32" | "to_i64" | "to_u64" => {
            if x == nar { return None; }
            if x == 0 { return Some(0); }
            let (m, e) = dec(n, es, mag);
            let r = rne(m, e);
            match op {
                "to_i32" => (if neg { if r >= 1 << 31 { i32::MIN } else { -(r as i64) as i32 } } else if r > i32::MAX as u128 { i32::MAX } else { r as i32 }) as u32 as u64,
                "to_i64" => (if neg { if r >= 1 << 63 { i64::MIN } else { -(r as i128) as i64 } } else if r > i64::MAX as u128 { i64::MAX } else { r as i64 }) as u64,
                "to_u32" => if neg { 0 } else if r > u32::MAX as u128 { u32::MAX as u64 } else { r as u64 },
                _ => if neg { 0 } else if r > u64::MAX as u128 { u64::MAX } else { r as u64 },
            }
        }
        "sqrt" => {
            if es != 2 { return None; }
            if x == 0 { 0 } else if neg { (nar as u64) << (32 - n) } else {
                let (mut m, mut e) = dec(n, es, x);
                if e & 1 != 0 { m <<= 1; e -= 1; }
                let w = m << 64; let r = isqrt(w);
                (enc(n, es, r, (e - 64) / 2, r * r != w) as u64) << (32 - n)
            }
        }
        _ => return None,
    })
}
fn px2_un<const N: u32>(op: &str, bits: u32) -> u64 {
    let p = PxE2::<N>::from_bits(bits);
    match op { "to_f64" => p.to_f64().to_bits(), "to_f32" => p.to_f32().to_bits() as u64, "to_p32_m" => p.to_p32e2().to_bits() as u64,
        "to_p16_m" => p.to_p16e1().to_bits() as u64, "to_p8_m" => p.to_p8e0().to_bits() as u64, "to_i32" => p.to_i32() as u32 as u64,
        "to_u32" => p.to_u32() as u64, "to_i64" => p.to_i64() as u64, "to_u64" => p.to_u64(), _ => p.sqrt().to_bits() as u64 }
}
fn px1_un<const N: u32>(op: &str, bits: u32) -> u64 {
    let p = PxE1::<N>::from_bits(bits);
    match op { "to_f64" => p.to_f64().to_bits(), "to_f32" => p.to_f32().to_bits() as u64, "to_p32_m" => p.to_p32e2().to_bits() as u64,
        "to_p16_m" => p.to_p16e1().to_bits() as u64, "to_p8_m" => p.to_p8e0().to_bits() as u64, "to_i32" => p.to_i32() as u32 as u64,
        "to_u32" => p.to_u32() as u64, "to_i64" => p.to_i64() as u64, _ => p.to_u64() }
}
fn px2_bin<const N: u32>(op: u8, a: u32, b: u32) -> u32 {
    let (x, y) = (PxE2::<N>::from_bits(a), PxE2::<N>::from_bits(b));
    match op { 0 => x + y, 1 => x - y, 2 => x * y, _ => x / y }.to_bits()
}
fn px1_bin<const N: u32>(op: u8, a: u32, b: u32) -> u32 {
    let (x, y) = (PxE1::<N>::from_bits(a), PxE1::<N>::from_bits(b));
    match op { 0 => x + y, 1 => x - y, 2 => x * y, _ => x / y }.to_bits()
}

pub fn px_scan(fam: &str, nb: u32, cap: usize) {
    std::panic::set_hook(Box::new(|_| {}));
    let es: u32 = if fam.starts_with("px2") { 2 } else { 1 };
    let ty = if es == 2 { "px2" } else { "px1" };
    let nthreads = std::thread::available_parallelism().map(|x| x.get()).unwrap_or(4).min(16) as u64;
    let mut handles = Vec::new();
    let binary = fam.ends_with("binary");
    for t in 0..nthreads {
        handles.push(std::thread::spawn(move || {
            let mut bad: Vec<String> = Vec::new();
            if !binary {
                for n in 2..=(if nb == 0 { 32u32 } else { nb }) {
                    let total = 1u64 << n; let sh = 32 - n;
                    let (lo, hi) = (t * total / nthreads, (t + 1) * total / nthreads);
                    for x in lo..hi {
                        let x = x as u32; let bits = x << sh;
                        for op in UN {
                            if *op == "sqrt" && es != 2 { continue; }
                            if let Some(want) = expect_un(n, es, op, x) {
                                let got = std::panic::catch_unwind(|| if es == 2 { with_n!(n, px2_un, op, bits) } else { with_n!(n, px1_un, op, bits) });
                                if !matches!(got, Ok(v) if v == want) && bad.len() < cap { bad.push(format!("{} {} {:x} {:x}", ty, op, n, bits)); }
                            }
                        }
                    }
                }
            } else {
                for n in 2..=nb {
                    let total = 1u64 << n; let sh = 32 - n;
                    let (lo, hi) = (t * total / nthreads, (t + 1) * total / nthreads);
                    for a in lo..hi { for b in 0..total {
                        let (a, b) = (a as u32, b as u32);
                        for op in 0..4u8 {
                            let want = reference(n, es, op, a, b, 0) << sh;
                            let got = std::panic::catch_unwind(|| if es == 2 { with_n!(n, px2_bin, op, a << sh, b << sh) } else { with_n!(n, px1_bin, op, a << sh, b << sh) });
                            if !matches!(got, Ok(v) if v == want) && bad.len() < cap { bad.push(format!("{} {} {:x} {:x} {:x}", ty, ["add", "sub", "mul", "div"][op as usize], n, a << sh, b << sh)); }
                        }
                    } }
                }
            }
            bad
        }));
    }
    let mut out = String::new();
    for h in handles { for l in h.join().unwrap() { out.push_str(&l); out.push('\n'); } }
    print!("{}", out);
}
