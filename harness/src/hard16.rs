//! `verif_harness --p16-scan <stride> <cap>`: P16E1 `+ - * /` on ALL 2^32 operand pairs (or every `stride`-th first operand)
//! against an exact integer reference that is independent of the crate under test (own decoder, u128 arithmetic, bit-string
//! rounding).  A SEARCH: the disagreeing pairs are printed and judged by the specification afterwards.
use softposit::P16E1;

/// decode a positive P16E1 pattern (1..=0x7fff): value = m * 2^e  (m odd-or-even integer with the hidden bit)
fn dec(x: u16) -> (u128, i32) {
    let mut bits = (x as u32) << 17; // drop sign, left-align the 15 remaining bits in 32
    let first = bits >> 31;
    let mut run = 0u32;
    while run < 15 && (bits >> 31) == first { run += 1; bits <<= 1; }
    let k: i32 = if first == 1 { run as i32 - 1 } else { -(run as i32) };
    let rem = 15 - run;                               // bits left including the terminator
    let rest_len = if rem > 0 { rem - 1 } else { 0 }; // after the terminator
    let rest: u32 = if rest_len > 0 { (bits << 1) >> (32 - rest_len) } else { 0 };
    let (e, frac, fb) = if rest_len >= 1 { let fb = rest_len - 1; ((rest >> fb) as i32, rest & ((1u32 << fb) - 1), fb) } else { (0, 0, 0) };
    let s = 2 * k + e;
    (((1u128 << fb) + frac as u128), s - fb as i32)
}

/// round the positive value m * 2^e (+ a sticky remainder) to a P16E1 pattern by the posit rule (bit-string round-to-nearest-even,
/// never to zero, never beyond maxpos)
fn enc(m: u128, e: i32, sticky: bool) -> u16 {
    let l = 127 - m.leading_zeros() as i32;           // floor(log2 m)
    let s = l + e;
    if s >= 28 { return 0x7fff; }
    if s < -28 { return 1; }
    let k = s >> 1; let ee = (s & 1) as u128;
    let (reglen, regime): (u32, u128) = if k >= 0 { (k as u32 + 2, ((1u128 << (k as u32 + 1)) - 1) << 1) } else { ((-k) as u32 + 1, 1) };
    let total = reglen + 1 + l as u32;
    let v = (regime << (1 + l as u32)) | (ee << l as u32) | (m - (1u128 << l as u32));
    let mut q: u128;
    if total <= 15 { q = v << (15 - total); if sticky { /* below half an ulp? the sticky lies below every kept bit: no round-up */ } }
    else {
        let sh = total - 15;
        q = v >> sh;
        let guard = (v >> (sh - 1)) & 1;
        let rest = (v & ((1u128 << (sh - 1)) - 1)) != 0 || sticky;
        if guard == 1 && (rest || (q & 1) == 1) { q += 1; }
    }
    if q == 0 { q = 1; }
    if q > 0x7fff { q = 0x7fff; }
    q as u16
}
fn sgn(p: u16, neg: bool) -> u16 { if neg { p.wrapping_neg() } else { p } }

pub fn reference(op: u8, a: u16, b: u16) -> u16 {
    if a == 0x8000 || b == 0x8000 { return 0x8000; }
    let (na, nb) = (a >> 15 == 1, b >> 15 == 1);
    let (ma, mb) = (if na { a.wrapping_neg() } else { a }, if nb { b.wrapping_neg() } else { b });
    match op {
        0 | 1 => {
            let nb = if op == 1 { !nb } else { nb };
            if a == 0 { return sgn(mb, nb && mb != 0); }
            if b == 0 { return a; }
            let (m1, e1) = dec(ma); let (m2, e2) = dec(mb);
            let e = e1.min(e2);
            let x1 = (m1 << (e1 - e) as u32) as i128 * if na { -1 } else { 1 };
            let x2 = (m2 << (e2 - e) as u32) as i128 * if nb { -1 } else { 1 };
            let r = x1 + x2;
            if r == 0 { return 0; }
            sgn(enc(r.unsigned_abs(), e, false), r < 0)
        }
        2 => {
            if a == 0 || b == 0 { return 0; }
            let (m1, e1) = dec(ma); let (m2, e2) = dec(mb);
            sgn(enc(m1 * m2, e1 + e2, false), na != nb)
        }
        _ => {
            if b == 0 { return 0x8000; }
            if a == 0 { return 0; }
            let (m1, e1) = dec(ma); let (m2, e2) = dec(mb);
            let num = m1 << 60;
            let q = num / m2; let r = num % m2;
            sgn(enc(q, e1 - e2 - 60, r != 0), na != nb)
        }
    }
}

pub fn p16_scan(stride: u32, cap: usize) {
    std::panic::set_hook(Box::new(|_| {}));
    let nthreads = std::thread::available_parallelism().map(|n| n.get()).unwrap_or(4).min(16) as u32;
    let mut handles = Vec::new();
    for t in 0..nthreads {
        handles.push(std::thread::spawn(move || {
            let mut bad: Vec<(u8, u16, u16)> = Vec::new();
            let mut a = t * stride;
            while a < 65536 {
                for b in 0..65536u32 {
                    let (pa, pb) = (P16E1::from_bits(a as u16), P16E1::from_bits(b as u16));
                    for op in 0..4u8 {
                        let got = std::panic::catch_unwind(|| match op { 0 => pa + pb, 1 => pa - pb, 2 => pa * pb, _ => pa / pb }.to_bits());
                        let ok = match got { Ok(v) => v == reference(op, a as u16, b as u16), Err(_) => false };
                        if !ok && bad.len() < cap { bad.push((op, a as u16, b as u16)); }
                    }
                }
                a += nthreads * stride;
            }
            bad
        }));
    }
    let names = ["add", "sub", "mul", "div"];
    let mut out = String::new();
    for h in handles { for (op, a, b) in h.join().unwrap() { out.push_str(&format!("p16 {} {:x} {:x}\n", names[op as usize], a, b)); } }
    print!("{}", out);
}
