from fractions import Fraction as Fr
def to_rat(n,es,x):
    if x==0: return Fr(0)
    if x==1<<(n-1): return None
    neg = x>>(n-1)
    c = ((1<<n)-x) if neg else x
    m=n-1
    bits=[(c>>(m-1-i))&1 for i in range(m)]
    r0=bits[0]; run=0
    while run<m and bits[run]==r0: run+=1
    k = run-1 if r0 else -run
    rest=bits[run+1:]  # after terminator
    e=0
    for i in range(es):
        e=e*2+(rest[i] if i<len(rest) else 0)
    fb=rest[es:]
    f=0
    for b in fb: f=f*2+b
    v=Fr(2)**(k*(1<<es)+e)*(1+Fr(f,1<<len(fb)))
    return -v if neg else v
def ilog2(q):
    # floor(log2 q), q>0
    s=q.numerator.bit_length()-q.denominator.bit_length()
    if Fr(2)**s>q: s-=1
    elif Fr(2)**(s+1)<=q: s+=1
    assert Fr(2)**s<=q<Fr(2)**(s+1)
    return s
def round_pos(n,es,q):
    m=n-1
    maxpos=Fr(2)**((m-1)*(1<<es)); minpos=1/maxpos
    if q>=maxpos: return (1<<m)-1
    if q<=minpos: return 1
    s=ilog2(q); k=s>>es; e=s-(k<<es); f=q/Fr(2)**s-1
    # unbounded encoding as a rational with integer part having m bits:
    # regime bits: k>=0: (k+1) ones then 0 ; k<0: (-k) zeros then 1
    if k>=0: rl=k+2; regv=(1<<(k+2))-2
    else: rl=-k+1; regv=1
    # value B = (regv*2^es + e + f) * 2^(m-rl-es)
    B=(Fr(regv)*(1<<es)+e+f)*Fr(2)**(m-rl-es)
    fl=B.numerator//B.denominator; rem=B-fl
    if rem>Fr(1,2) or (rem==Fr(1,2) and fl&1): fl+=1
    return max(1,min((1<<m)-1,fl))
def rnd(n,es,q):
    if q==0: return 0
    if q>0: return round_pos(n,es,q)
    return ((1<<n)-round_pos(n,es,-q))&((1<<n)-1)
if __name__=="__main__":
    # self-check round(to_rat x)=x for P8,P16
    for (n,es) in [(8,0),(16,1),(6,2),(5,1),(3,2),(2,1)]:
        for x in range(1<<n):
            v=to_rat(n,es,x)
            if v is None: continue
            assert rnd(n,es,v)==x,(n,es,x,v)
        vals=[to_rat(n,es,x) for x in range(1,1<<(n-1))]
        assert all(a<b for a,b in zip(vals,vals[1:]))
    print("spec selfcheck ok")
