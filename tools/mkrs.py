#!/usr/bin/env python3
"""SPIKE: generate Rs.lean — Rust integer/float semantics prelude (debug-profile checked ops)."""
import struct, math
T={'u8':('UInt8',8,False),'u16':('UInt16',16,False),'u32':('UInt32',32,False),'u64':('UInt64',64,False),'usize':('UInt64',64,False),
   'i8':('Int8',8,True),'i16':('Int16',16,True),'i32':('Int32',32,True),'i64':('Int64',64,True),'isize':('Int64',64,True),
   'u128':('U128',128,False),'i128':('I128',128,True)}
L=[]
L.append('''namespace Rs
inductive Trap | overflow | shift | divzero | index | panic | fuel
  deriving Repr, DecidableEq, Inhabited
abbrev M := Except Trap
inductive Ctl (σ ρ : Type) | cont (s : σ) | brk (s : σ) | ret (r : ρ)
inductive LoopRes (σ ρ : Type) | done (s : σ) | ret (r : ρ)
@[inline] def constVal {α} [Inhabited α] (x : M α) : α := match x with | .ok v => v | .error _ => default
abbrev Enum := Nat
structure U128 where bv : BitVec 128 deriving DecidableEq, Inhabited
structure I128 where bv : BitVec 128 deriving DecidableEq, Inhabited
instance : LT U128 := ⟨fun a b => a.bv < b.bv⟩
instance : LE U128 := ⟨fun a b => a.bv ≤ b.bv⟩
instance (a b : U128) : Decidable (a < b) := inferInstanceAs (Decidable (a.bv < b.bv))
instance (a b : U128) : Decidable (a ≤ b) := inferInstanceAs (Decidable (a.bv ≤ b.bv))
instance : LT I128 := ⟨fun a b => a.bv.slt b.bv = true⟩
instance : LE I128 := ⟨fun a b => a.bv.sle b.bv = true⟩
instance (a b : I128) : Decidable (a < b) := inferInstanceAs (Decidable (_ = true))
instance (a b : I128) : Decidable (a ≤ b) := inferInstanceAs (Decidable (_ = true))
instance : AndOp U128 := ⟨fun a b => ⟨a.bv &&& b.bv⟩⟩
instance : OrOp U128 := ⟨fun a b => ⟨a.bv ||| b.bv⟩⟩
instance : XorOp U128 := ⟨fun a b => ⟨a.bv ^^^ b.bv⟩⟩
instance : AndOp I128 := ⟨fun a b => ⟨a.bv &&& b.bv⟩⟩
instance : OrOp I128 := ⟨fun a b => ⟨a.bv ||| b.bv⟩⟩
instance : XorOp I128 := ⟨fun a b => ⟨a.bv ^^^ b.bv⟩⟩
def not_u128 (a : U128) : U128 := ⟨~~~a.bv⟩
def not_i128 (a : I128) : I128 := ⟨~~~a.bv⟩
structure Q32E2 where
  f0 : Int64
  f1 : UInt64
  f2 : UInt64
  f3 : UInt64
  f4 : UInt64
  f5 : UInt64
  f6 : UInt64
  f7 : UInt64
  deriving Inhabited, DecidableEq
structure F64 where bits : UInt64 deriving DecidableEq, Inhabited
structure F32 where bits : UInt32 deriving DecidableEq, Inhabited
def F64.ofBits (n : Nat) : F64 := ⟨UInt64.ofNat n⟩
def F32.ofBits (n : Nat) : F32 := ⟨UInt32.ofNat n⟩
@[inline] def F64.f (x : F64) : Float := Float.ofBits x.bits
@[inline] def F64.of (x : Float) : F64 := ⟨x.toBits⟩
@[inline] def F32.f (x : F32) : Float32 := Float32.ofBits x.bits
@[inline] def F32.of (x : Float32) : F32 := ⟨x.toBits⟩
def index {α} [Inhabited α] (a : Array α) (i : UInt64) : M α := if h : i.toNat < a.size then .ok a[i.toNat] else .error .index
def setIndex {α} (a : Array α) (i : UInt64) (v : α) : M (Array α) := if i.toNat < a.size then .ok (a.set! i.toNat v) else .error .index
@[inline] def toInt_bool (b : Bool) : Int := if b then 1 else 0
structure ArrIter (α : Type) where
  arr : Array α
  i : Nat
  deriving Inhabited
structure RangeIter where
  lo : UInt64
  hi : UInt64
  deriving Inhabited
class Iter (ι : Type) (α : outParam Type) where
  next : ι → Option α × ι
instance {α} : Iter (ArrIter α) α := ⟨fun it => if h : it.i < it.arr.size then (some it.arr[it.i], {it with i := it.i + 1}) else (none, it)⟩
instance : Iter RangeIter UInt64 := ⟨fun it => if it.lo < it.hi then (some it.lo, {it with lo := it.lo + 1}) else (none, it)⟩
@[inline] def iter_next {ι α} [Iter ι α] (it : ι) : Option α × ι := Iter.next it
@[inline] def arr_iter {α} (a : Array α) : ArrIter α := ⟨a, 0⟩
def slice_from {α} (a : Array α) (r : RangeIter) : M (Array α) := if r.lo.toNat ≤ a.size then .ok (a.extract r.lo.toNat a.size) else .error .index
def slice_to {α} (a : Array α) (r : RangeIter) : M (Array α) := if r.hi.toNat ≤ a.size then .ok (a.extract 0 r.hi.toNat) else .error .index
def slice_range {α} (a : Array α) (r : RangeIter) : M (Array α) := if r.lo ≤ r.hi ∧ r.hi.toNat ≤ a.size then .ok (a.extract r.lo.toNat r.hi.toNat) else .error .index
@[inline] def toInt_enum (b : Enum) : Int := b
''')
for op in ('add','sub','mul','div'):
    sym={'add':'+','sub':'-','mul':'*','div':'/'}[op]
    L.append(f'@[inline] def {op}_f64 (a b : F64) : F64 := F64.of (a.f {sym} b.f)')
    L.append(f'@[inline] def {op}_f32 (a b : F32) : F32 := F32.of (a.f {sym} b.f)')
for op,sym in (('lt','<'),('le','<='),('gt','>'),('ge','>=')):
    L.append(f'@[inline] def {op}_f64 (a b : F64) : Bool := decide (a.f {sym} b.f)')
    L.append(f'@[inline] def {op}_f32 (a b : F32) : Bool := decide (a.f {sym} b.f)')
L.append('@[inline] def eq_f64 (a b : F64) : Bool := a.f == b.f')
L.append('@[inline] def ne_f64 (a b : F64) : Bool := !(a.f == b.f)')
L.append('@[inline] def eq_f32 (a b : F32) : Bool := a.f == b.f')
L.append('@[inline] def ne_f32 (a b : F32) : Bool := !(a.f == b.f)')
L.append('@[inline] def neg_f64 (a : F64) : F64 := F64.of (-a.f)')
L.append('@[inline] def neg_f32 (a : F32) : F32 := F32.of (-a.f)')
L.append('@[inline] def is_finite_f64 (a : F64) : Bool := a.f.isFinite')
L.append('@[inline] def cast_f64_f32 (a : F64) : F32 := F32.of a.f.toFloat32')
L.append('@[inline] def cast_f32_f64 (a : F32) : F64 := F64.of a.f.toFloat')
L.append('@[inline] def transmute_u64_f64 (a : UInt64) : F64 := ⟨a⟩')
L.append('@[inline] def transmute_f64_u64 (a : F64) : UInt64 := a.bits')
L.append('@[inline] def transmute_u32_f32 (a : UInt32) : F32 := ⟨a⟩')
L.append('@[inline] def transmute_f32_u32 (a : F32) : UInt32 := a.bits')
L.append('@[inline] def from_bits_f64 (a : UInt64) : F64 := ⟨a⟩')
L.append('@[inline] def to_bits_f64 (a : F64) : UInt64 := a.bits')
L.append('@[inline] def from_bits_f32 (a : UInt32) : F32 := ⟨a⟩')
L.append('@[inline] def to_bits_f32 (a : F32) : UInt32 := a.bits')
L.append('@[inline] def new_f64 (a b : F64) : F64 × F64 := (a,b)')
L.append('@[inline] def contains_x (r : F64 × F64) (x : F64) : Bool := le_f64 r.1 x && le_f64 x r.2')
def f64bits(v): return struct.unpack('<Q',struct.pack('<d',v))[0]
consts={'E':math.e,'FRAC_1_PI':1/math.pi,'FRAC_1_SQRT_2':0.70710678118654752440,'FRAC_2_PI':2/math.pi,'FRAC_2_SQRT_PI':1.12837916709551257390,
 'FRAC_PI_2':math.pi/2,'FRAC_PI_3':math.pi/3,'FRAC_PI_4':math.pi/4,'FRAC_PI_6':math.pi/6,'FRAC_PI_8':math.pi/8,'LN_10':math.log(10),'LN_2':math.log(2),
 'LOG10_2':0.301029995663981195213738894724493027,'LOG10_E':0.434294481903251827651128918916605082,'LOG2_10':3.32192809488736234787031942948939018,
 'LOG2_E':1.44269504088896340735992468100189214,'PI':math.pi,'SQRT_2':1.41421356237309504880168872420969808}
for k,v in consts.items(): L.append(f'def const_f64_{k} : F64 := F64.ofBits {f64bits(v)}')
L.append(f'def const_f64_NAN : F64 := F64.ofBits {0x7ff8000000000000}')
L.append(f'def const_f64_INFINITY : F64 := F64.ofBits {0x7ff0000000000000}')
L.append(f'def const_f32_NAN : F32 := F32.ofBits {0x7fc00000}')
L.append('def const_f32_MANTISSA_DIGITS : UInt32 := 24\ndef const_f64_MANTISSA_DIGITS : UInt32 := 53\ndef const_f32_MAX_EXP : Int32 := 128\ndef const_f64_MAX_EXP : Int32 := 1024')
base=[]
for n,(lt,w,sg) in T.items():
    lo = -(1<<(w-1)) if sg else 0
    hi = (1<<(w-1))-1 if sg else (1<<w)-1
    if w==128:
        toInt = 'x.bv.toInt' if sg else '(x.bv.toNat : Int)'
        ofInt = f'⟨BitVec.ofInt 128 i⟩'
    else:
        toInt = 'x.toInt' if sg else '(x.toNat : Int)'
        ofInt = f'{lt}.ofInt i' if sg else f'{lt}.ofNat (i % {1<<w}).toNat'
    base.append(f'@[inline] def toInt_{n} (x : {lt}) : Int := {toInt}')
    base.append(f'@[inline] def ofInt_{n} (i : Int) : {lt} := {ofInt}')
    base.append(f'@[inline] def chk_{n} (i : Int) : M {lt} := if i < {lo} || i > {hi} then .error .overflow else .ok (ofInt_{n} i)')
    for op,sym in (('add','+'),('sub','-'),('mul','*')):
        base.append(f'@[inline] def {op}_{n} (a b : {lt}) : M {lt} := chk_{n} (toInt_{n} a {sym} toInt_{n} b)')
        base.append(f'@[inline] def wrapping_{op}_{n} (a b : {lt}) : {lt} := ofInt_{n} (toInt_{n} a {sym} toInt_{n} b)')
    base.append(f'@[inline] def neg_{n} (a : {lt}) : M {lt} := chk_{n} (- toInt_{n} a)')
    base.append(f'@[inline] def div_{n} (a b : {lt}) : M {lt} := if toInt_{n} b == 0 then .error .divzero else chk_{n} (Int.tdiv (toInt_{n} a) (toInt_{n} b))')
    base.append(f'@[inline] def rem_{n} (a b : {lt}) : M {lt} := if toInt_{n} b == 0 then .error .divzero else chk_{n} (Int.tmod (toInt_{n} a) (toInt_{n} b))')
    base.append(f'@[inline] def shl_{n} (a : {lt}) (s : Int) : M {lt} := if s < 0 || s >= {w} then .error .shift else .ok (ofInt_{n} (toInt_{n} a * (2:Int)^s.toNat))')
    base.append(f'@[inline] def shr_{n} (a : {lt}) (s : Int) : M {lt} := if s < 0 || s >= {w} then .error .shift else .ok (ofInt_{n} (toInt_{n} a / (2:Int)^s.toNat))')
    base.append(f'@[inline] def wrapping_neg_{n} (a : {lt}) : {lt} := ofInt_{n} (- toInt_{n} a)')
    base.append(f'@[inline] def wrapping_shr_{n} (a : {lt}) (s : UInt32) : {lt} := ofInt_{n} (toInt_{n} a / (2:Int)^(s.toNat % {w}))')
    base.append(f'@[inline] def wrapping_shl_{n} (a : {lt}) (s : UInt32) : {lt} := ofInt_{n} (toInt_{n} a * (2:Int)^(s.toNat % {w}))')
    base.append(f'@[inline] def checked_shl_{n} (a : {lt}) (s : UInt32) : Option {lt} := if s.toNat >= {w} then none else some (ofInt_{n} (toInt_{n} a * (2:Int)^s.toNat))')
    base.append(f'@[inline] def cast_bool_{n} (b : Bool) : {lt} := ofInt_{n} (if b then 1 else 0)')
    base.append(f'@[inline] def cast_enum_{n} (b : Enum) : {lt} := ofInt_{n} b')
    base.append(f'def const_{n}_BITS : UInt32 := {w}')
    base.append(f'def const_{n}_MAX : {lt} := ofInt_{n} {hi}')
    base.append(f'def const_{n}_MIN : {lt} := ofInt_{n} ({lo})')
    base.append(f'@[inline] def min_value_{n} : {lt} := ofInt_{n} ({lo})')
    base.append(f'@[inline] def max_value_{n} : {lt} := ofInt_{n} {hi}')
    base.append(f'@[inline] def min_{n} (a b : {lt}) : {lt} := if toInt_{n} b < toInt_{n} a then b else a')
    base.append(f'@[inline] def max_{n} (a b : {lt}) : {lt} := if toInt_{n} b < toInt_{n} a then a else b')
    base.append(f'@[inline] def le_{n} (a b : {lt}) : Bool := decide (toInt_{n} a ≤ toInt_{n} b)')
    base.append(f'@[inline] def lt_{n} (a b : {lt}) : Bool := decide (toInt_{n} a < toInt_{n} b)')
    base.append(f'@[inline] def eq_{n} (a b : {lt}) : Bool := toInt_{n} a == toInt_{n} b')
    base.append(f'@[inline] def ne_{n} (a b : {lt}) : Bool := toInt_{n} a != toInt_{n} b')
    base.append(f'@[inline] def gt_{n} (a b : {lt}) : Bool := decide (toInt_{n} a > toInt_{n} b)')
    base.append(f'@[inline] def ge_{n} (a b : {lt}) : Bool := decide (toInt_{n} a ≥ toInt_{n} b)')
    base.append(f'@[inline] def cmp_{n} (a b : {lt}) : Enum := if toInt_{n} a < toInt_{n} b then 0 else if toInt_{n} a == toInt_{n} b then 1 else 2')
    base.append(f'@[inline] def partial_cmp_{n} (a b : {lt}) : Option Enum := some (cmp_{n} a b)')
    base.append(f'@[inline] def pow_{n} (a : {lt}) (e : UInt32) : M {lt} := chk_{n} (toInt_{n} a ^ e.toNat)')
    if sg:
        base.append(f'@[inline] def abs_{n} (a : {lt}) : M {lt} := chk_{n} (Int.natAbs (toInt_{n} a))')
        base.append(f'@[inline] def signum_{n} (a : {lt}) : {lt} := ofInt_{n} (Int.sign (toInt_{n} a))')
        base.append(f'@[inline] def is_negative_{n} (a : {lt}) : Bool := decide (toInt_{n} a < 0)')
    base.append(f'@[inline] def leading_zeros_{n} (a : {lt}) : UInt32 := UInt32.ofNat ({w} - (if toInt_{n} a == 0 then 0 else Nat.log2 ((toInt_{n} a % {1<<w}).toNat) + 1))')
L+=base
for n,(lt,w,sg) in T.items():
    for m,(lt2,w2,sg2) in T.items():
        L.append(f'@[inline] def cast_{n}_{m} (x : {lt}) : {lt2} := ofInt_{m} (toInt_{n} x)')
L.append('def transmute_u128_arr (x : U128) : Array UInt64 := #[UInt64.ofNat (x.bv.toNat % 2^64), UInt64.ofNat (x.bv.toNat / 2^64)]')
L.append('end Rs')
open('/verif/lean/Rs.lean','w').write('\n'.join(L)+'\n')
