#!/bin/bash
# usage: seed_confirm.sh <seed-id> <worktree>   — confirm a seeded change (demo fails with it, passes without, suite passes) and file it under /verif/seeded/<id>/
set -u
DEMO_FEATURES=${DEMO_FEATURES:-}
ID=$1; WT=$2; OUT=/verif/seeded/$ID
mkdir -p $OUT
cd $WT || exit 2
export CARGO_TARGET_DIR=$WT/target CARGO_NET_OFFLINE=true
git diff -- src > $OUT/patch.diff
cp examples/mutant_demo.rs $OUT/demo.rs 2>/dev/null
cp _mutant/notes.txt $OUT/notes.txt 2>/dev/null
cargo run --offline $DEMO_FEATURES --example mutant_demo > $OUT/demo_with.log 2>&1; RC_WITH=$?
git apply -R $OUT/patch.diff || exit 3   # (not git stash: the stash is shared by all worktrees)
cargo run --offline $DEMO_FEATURES --example mutant_demo > $OUT/demo_without.log 2>&1; RC_WITHOUT=$?
git apply $OUT/patch.diff || exit 3
cargo test --offline > $OUT/suite_with.log 2>&1; RC_SUITE=$?
PASSED=$(grep -c '\.\.\. ok' $OUT/suite_with.log)
echo "{\"demo_rc_with_change\": $RC_WITH, \"demo_rc_without_change\": $RC_WITHOUT, \"suite_rc_with_change\": $RC_SUITE, \"suite_tests_ok\": $PASSED}" > $OUT/confirm.json
cat $OUT/confirm.json
