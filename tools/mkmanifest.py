#!/usr/bin/env python3
"""Write MANIFEST.json from the property table (claims) — run after changing what is claimed."""
import json, os, sys
HERE = os.path.dirname(os.path.dirname(os.path.abspath(__file__)))
sys.path.insert(0, HERE)
from checklib import claims
props = [json.loads(l) for l in open(os.path.join(HERE, 'properties.jsonl'))]
checks = []; na = []
for p in props:
    c = claims.CLAIMS.get(p['id'])
    if not c or c.get('not_applicable'):
        na.append({'property_id': p['id'], 'reason': (c or {}).get('not_applicable', 'check under construction')})
        continue
    checks.append({
        'property_id': p['id'],
        'quick_cmd': './check %s --tier quick' % p['id'],
        'thorough_cmd': './check %s --tier thorough' % p['id'],
        'evidence_file': 'evidence/%s.json' % p['id'],
        'replay_cmd_template': './check %s --replay {path}' % p['id'],
        'engine': 'lean4-gen-model',
        'level_claimed': {'category': 'proof', 'text': c['text'], 'design_ref': c.get('design_ref', 'DESIGN.md §6 ' + p['id'])},
        'level_note': c['note'],
        'technique': c['technique'],
    })
m = {
    'version': 1,
    'setup_cmd': './check --setup',
    'hooks': {'guard': 'softposit_verif',
              'enable': 'no hook is needed: the harness (/verif/harness, path dependency on /repo) drives the public API; --cfg softposit_verif is reserved and unused',
              'baseline_off_cmd': 'cd /repo && cargo test --workspace --no-fail-fast --offline',
              'source_commits': ['051d539734b95cfb0d45e1bd3eb5cc525cfa06f8'], 'add_only': True},
    'engines': [{'name': 'lean4-gen-model', 'path': 'check',
                 'serves_properties': [c['property_id'] for c in checks],
                 'kind_free_text': 'Lean 4 model regenerated from rustc THIR on every run (translator/), theorems in lean/Props, '
                                   'correspondence + oracle run of the real crate vs model vs Spec (harness/, lean/*Driver.lean)'}],
    'checks': checks,
    'not_applicable': na,
    'notes': 'See DESIGN.md. Genuine defects repaired in /repo are listed in known_findings.json (fixed: entries).',
}
json.dump(m, open(os.path.join(HERE, 'MANIFEST.json'), 'w'), indent=1)
print('MANIFEST: %d checks, %d not claimed' % (len(checks), len(na)))
