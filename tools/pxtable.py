#!/usr/bin/env python3
"""failure-rate table (percent, by operation and width N) of the last C13/C14 run — triage helper"""
import glob,collections,subprocess,sys
pid=sys.argv[1] if len(sys.argv)>1 else 'C13'
tot=collections.Counter(); bad=collections.Counter(); ex={}
d=sorted(glob.glob('/verif/work/runs/%s_*'%pid))[0]
for f in glob.glob(d+'/out_*.txt'):
    for l in open(f):
        ws=l.split()
        if len(ws)<4 or not ws[0].startswith('px'): continue
        tot[(ws[0],ws[1],int(ws[2],16))]+=1
    p=subprocess.run(['/verif/lean/.lake/build/bin/specdriver'],stdin=open(f),capture_output=True,text=True)
    for l in p.stdout.splitlines():
        if l.startswith('SPEC_MISMATCH'):
            ws=l.split(); k=(ws[1],ws[2],int(ws[3],16)); bad[k]+=1; ex.setdefault((ws[1],ws[2]),l)
ops=sorted(set((k[0],k[1]) for k in tot))
print('op'.ljust(20),' '.join('%2d'%n for n in range(2,33)))
for o in ops:
    if not any(bad[(o[0],o[1],n)] for n in range(2,33)): continue
    row=[]
    for n in range(2,33):
        t=tot[(o[0],o[1],n)]; b=bad[(o[0],o[1],n)]
        row.append(' .' if b==0 else ('%2d'%max(1,min(99,100*b//max(t,1)))))
    print((o[0]+' '+o[1]).ljust(20),' '.join(row))
for k,v in sorted(ex.items()): print(v[:160])
