#!/bin/bash
# usage: seed_run.sh <seed-id> <prop> [<prop>...] — apply the seeded change to /repo, run the quick checks, undo it
ID=$1; shift
cd /verif
git -C /repo apply /verif/seeded/$ID/patch.diff || exit 2
for P in "$@"; do
  ./check $P --tier quick > /verif/seeded/$ID/check_$P.log 2>&1; echo "$ID $P exit=$? $(grep -c '^VIOLATION' /verif/seeded/$ID/check_$P.log) violation lines"
  grep -A1 '^VIOLATION' /verif/seeded/$ID/check_$P.log | head -4 | cut -c1-300
done
git -C /repo checkout -- .
