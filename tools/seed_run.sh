#!/bin/bash
# usage: seed_run.sh <seed-id> <prop> [<prop>...] — apply the seeded change to /repo, run the quick checks, undo it.
# The evidence files are saved before and restored afterwards: evidence must describe the UNCHANGED tree only.
ID=$1; shift
cd /verif
git -C /repo apply /verif/seeded/$ID/patch.diff || exit 2
for P in "$@"; do
  cp /verif/evidence/$P.json /tmp/.evidence_$P.json.bak 2>/dev/null
  ./check $P --tier quick > /verif/seeded/$ID/check_$P.log 2>&1; echo "$ID $P exit=$? $(grep -c '^VIOLATION' /verif/seeded/$ID/check_$P.log) violation lines"
  grep -A1 '^VIOLATION' /verif/seeded/$ID/check_$P.log | head -4 | cut -c1-300
  [ -f /tmp/.evidence_$P.json.bak ] && mv /tmp/.evidence_$P.json.bak /verif/evidence/$P.json
done
git -C /repo checkout -- .
python3 /verif/translator/gen.py > /dev/null 2>&1   # bring lean/Gen back to the unchanged tree
