import Spec
import DriverCommon
/-! specification side of the non-scalar operation families -/
open DriverCommon
namespace SpecExtra
def handle (ws : List String) : Option (Option String) := none
end SpecExtra
