import Spec
import DriverCommon
/-! specification side of the non-scalar operation families -/
open DriverCommon Spec
namespace SpecExtra

/-- parse history tokens into abstract quire operations (`none` on a malformed line) -/
def parseQ (toks : List String) (fuel : Nat) : Option (List QOp) :=
  match fuel with
  | 0 => none
  | fuel + 1 =>
    let h := hexNat
    match toks with
    | [] => some []
    | "ap" :: a :: b :: r | "mp" :: a :: b :: r | "tp" :: a :: b :: r => (parseQ r fuel).map (QOp.addProd (h a) (h b) :: ·)
    | "sp" :: a :: b :: r | "ms" :: a :: b :: r | "ts" :: a :: b :: r => (parseQ r fuel).map (QOp.subProd (h a) (h b) :: ·)
    | "a1" :: a :: r => (parseQ r fuel).map (QOp.addOne (h a) :: ·)
    | "s1" :: a :: r => (parseQ r fuel).map (QOp.subOne (h a) :: ·)
    | "ap2" :: x :: a :: b :: r => (parseQ r fuel).map ([QOp.addProd (h x) (h a), QOp.addProd (h x) (h b)] ++ ·)
    | "sp2" :: x :: a :: b :: r => (parseQ r fuel).map ([QOp.subProd (h x) (h a), QOp.subProd (h x) (h b)] ++ ·)
    | "ap3" :: x :: a :: b :: c :: r => (parseQ r fuel).map ([QOp.addProd (h x) (h a), QOp.addProd (h x) (h b), QOp.addProd (h x) (h c)] ++ ·)
    | "ap22" :: a :: b :: c :: d :: r =>
      (parseQ r fuel).map ([QOp.addProd (h a) (h c), QOp.addProd (h a) (h d), QOp.addProd (h b) (h c), QOp.addProd (h b) (h d)] ++ ·)
    | "sp22" :: a :: b :: c :: d :: r =>
      (parseQ r fuel).map ([QOp.subProd (h a) (h c), QOp.subProd (h a) (h d), QOp.subProd (h b) (h c), QOp.subProd (h b) (h d)] ++ ·)
    | "apa" :: x :: n :: r =>
      let k := h n
      if r.length < k then none else (parseQ (r.drop k) fuel).map ((r.take k).map (fun p => QOp.addProd (h x) (h p)) ++ ·)
    | "spa" :: x :: n :: r =>
      let k := h n
      if r.length < k then none else (parseQ (r.drop k) fuel).map ((r.take k).map (fun p => QOp.subProd (h x) (h p)) ++ ·)
    | "fp" :: a :: r => (parseQ r fuel).map ([QOp.clear, QOp.addOne (h a)] ++ ·)
    | "neg" :: r => (parseQ r fuel).map (QOp.neg :: ·)
    | "clear" :: r => (parseQ r fuel).map (QOp.clear :: ·)
    | "rt" :: r => parseQ r fuel
    | "fb" :: b :: r => (parseQ r fuel).map (QOp.load (h b) :: ·)
    | _ => none

/-- run a history on the abstract state; `none` if some partial sum leaves the quire's range (outside C04) -/
def runQ (qf : QFmt) (ops : List QOp) : Option (Option Rat) :=
  ops.foldl (fun st op => match st with
    | none => none
    | some s => let s' := qStep qf s op; if qInRange qf s' then some s' else none) (some (some 0))

def expectQ (qf : QFmt) (s : Option Rat) : String :=
  let hexw := qf.w / 4
  let tp := qToPosit qf s
  let z := match s with | some x => x == 0 | none => false
  let n := s.isNone
  -- residual split: p1 = round(s), p2 = round(s - p1), p3 = round(s - p1 - p2), subtractions exact
  let sub (s : Option Rat) (p : Nat) : Option Rat := match s, toRat qf.p p with | some x, some y => some (x - y) | _, _ => none
  let p1 := tp
  let s1 := sub s p1
  let p2 := qToPosit qf s1
  let s2 := sub s1 p2
  let p3 := qToPosit qf s2
  s!"{toHex tp} {if z then 1 else 0} {if n then 1 else 0} {toHexW (qBits qf s) hexw} {toHex p1},{toHex p2} {toHex p1},{toHex p2},{toHex p3}"

def handleQ (qf : QFmt) (toks : List String) : Option (Option String) :=
  match parseQ toks (toks.length + 1) with
  | none => none
  | some ops => match runQ qf ops with
    | none => some none
    | some s => some (some (expectQ qf s))

/-- `q32 histpx <N> …`: a Q32E2 history with PxE2<N> operands (the patterns are P32E2 patterns whose low 32-N bits are zero);
every conversion of the final state into PxE2<N> is the exact sum rounded ONCE to an N-bit posit (es = 2), left-aligned -/
def handleQpx (nTok : String) (toks : List String) : Option (Option String) :=
  let n := hexNat nTok
  if n < 2 ∨ n > 32 then none else
  match parseQ toks (toks.length + 1) with
  | none => none
  | some ops =>
    -- operands outside the type (non-zero low bits) are outside C14
    let okOp (o : QOp) : Bool := match o with
      | .addProd a b | .subProd a b => lowZero n a && lowZero n b
      | .addOne a | .subOne a => lowZero n a
      | _ => true
    if !(ops.all okOp) then some none else
    match runQ q32 ops with
    | none => some none
    | some s =>
      let r := match s with | none => 2147483648 | some x => embed n (round (px2 n) x)
      some (some s!"{toHex r} {toHex r} {toHex r} {if s.isNone then 1 else 0}")

/-- C19: a sample must be a real posit in [0,1): pattern below the pattern of 1.0 (predicate-style: the expected string is
the implementation's own result when the predicate holds) -/
def sampleOk (f : Fmt) (res : String) : Option (Option String) :=
  if res != "PANIC" && hexNat res < one f then some (some res) else some (some "a-real-posit-in-[0,1)")

/-- C18: polynomial evaluation against its fused-dot-product definition -/
def polySpec (f : Fmt) (deg : String) (xs : List String) : Option (Option String) :=
  match xs with
  | [] => none
  | x :: cs =>
    let c := cs.map hexNat
    let r := if deg == "3a" then poly3a f (hexNat x) c else if deg == "4a" then poly4a f (hexNat x) c else poly f (hexNat x) c
    some (some (toHex r))

def handle (ws : List String) (res : String) : Option (Option String) :=
  match ws with
  | "p8" :: "poly" :: d :: xs => polySpec p8 d xs
  | "p16" :: "poly" :: d :: xs => polySpec p16 d xs
  | "p32" :: "poly" :: d :: xs => polySpec p32 d xs
  | "p8" :: "sample_seed" :: _ | "p8" :: "sample_raw" :: _ => sampleOk p8 res
  | "p16" :: "sample_seed" :: _ | "p16" :: "sample_raw" :: _ => sampleOk p16 res
  | "p32" :: "sample_seed" :: _ | "p32" :: "sample_raw" :: _ => sampleOk p32 res
  | "q8" :: "hist" :: toks => handleQ q8 toks
  | "q16" :: "hist" :: toks => handleQ q16 toks
  | "q32" :: "hist" :: toks => handleQ q32 toks
  | "q32" :: "histpx" :: n :: toks => handleQpx n toks
  | _ => none
end SpecExtra
