import Rs
import Gen
import DriverCommon
/-! model side of the non-scalar operation families (quire histories, generic widths, polynomials, sampling) -/
open Gen DriverCommon
namespace ModelExtra
def handle (ws : List String) : Option (Option String) := none
end ModelExtra
