import Gen.P32M
import Lemmas.Sweep
/-! # C15 — P32E2 elementary functions: domain-guard theorems (the ULP bound itself is explored, not proved)

GEN (symbolic, every input of the class):
* `ln d`, `log2 d` return NaR for EVERY `d ≤ 0` (this includes NaR, the most negative pattern);
* `atan2`, `powf` return NaR whenever either argument is NaR;
* `sin`, `cos`, `tan`, `exp`, `exp2`, `cbrt` return NaR for NaR.
Closed evaluations (one input each): `asin`, `acos`, `atan`, `sinh`, `cosh` at NaR, `hypot (NaR, 1)`.
The numerical accuracy bound (1–5 ulp) is NOT a theorem: `./check C15` recomputes every recorded result with an mpmath
oracle (400 bits, ambiguity-guarded rounding). -/
open Gen
namespace C15

abbrev NAR : Int32 := -2147483648
theorem nar_def : crate.p32e2.P32E2.NAR = NAR := rfl
theorem snar_def : crate.p32e2.math.sleef.NAR = NAR := rfl
theorem is_nar_eq (x : Int32) : crate.p32e2.P32E2.is_nar x = .ok (x == NAR) := by
  simp [crate.p32e2.P32E2.is_nar, crate.p32e2.P32E2.eq, nar_def]; rfl
theorem is_nar_nar : crate.p32e2.P32E2.is_nar NAR = .ok true := by rw [is_nar_eq]; rfl
theorem le_zero (d : Int32) (h : d ≤ 0) : Rs.le_i32 d 0 = true := by
  simp only [Rs.le_i32, Rs.toInt_i32]; exact decide_eq_true (Int32.le_iff_toInt_le.mp h)

/-- `ln d = NaR` for every `d ≤ 0` (zero, every negative value, NaR) -/
theorem ln_nonpos (d : Int32) (h : d ≤ 0) : crate.p32e2.math.sleef.ln d = .ok NAR := by
  unfold crate.p32e2.math.sleef.ln
  have hz : crate.p32e2.math.sleef.ZERO = 0 := rfl
  simp [hz, le_zero d h]; rfl
theorem log2_nonpos (d : Int32) (h : d ≤ 0) : crate.p32e2.math.sleef.log2 d = .ok NAR := by
  unfold crate.p32e2.math.sleef.log2
  have hz : crate.p32e2.math.sleef.ZERO = 0 := rfl
  simp [hz, le_zero d h]; rfl

theorem sin_nar : crate.p32e2.math.sleef.sin NAR = .ok NAR := by
  unfold crate.p32e2.math.sleef.sin; simp [is_nar_nar]; rfl
theorem cos_nar : crate.p32e2.math.sleef.cos NAR = .ok NAR := by
  unfold crate.p32e2.math.sleef.cos; simp [is_nar_nar]; rfl
theorem tan_nar : crate.p32e2.math.sleef.tan NAR = .ok NAR := by
  unfold crate.p32e2.math.sleef.tan; simp [is_nar_nar]; rfl
theorem exp_nar : crate.p32e2.math.sleef.exp NAR = .ok NAR := by
  unfold crate.p32e2.math.sleef.exp; simp [is_nar_nar]; rfl
theorem exp2_nar : crate.p32e2.math.sleef.exp2 NAR = .ok NAR := by
  unfold crate.p32e2.math.sleef.exp2; simp [is_nar_nar]; rfl
theorem cbrt_nar : crate.p32e2.math.sleef.cbrt NAR = .ok NAR :=
  (Sweep.isOk_iff _ _).mp (by native_decide : Sweep.isOk (crate.p32e2.math.sleef.cbrt NAR) NAR = true)

/-- NaR in either argument gives NaR, for EVERY other argument -/
theorem atan2_nar_left (x : Int32) : crate.p32e2.math.sleef.atan2 NAR x = .ok NAR := by
  unfold crate.p32e2.math.sleef.atan2
  by_cases h : x = NAR
  · subst h; simp [is_nar_eq]; rfl
  · have : (x == NAR) = false := by simpa using h
    simp [is_nar_eq, this]; rfl
theorem atan2_nar_right (y : Int32) : crate.p32e2.math.sleef.atan2 y NAR = .ok NAR := by
  unfold crate.p32e2.math.sleef.atan2; simp [is_nar_eq]; rfl
theorem pow_nar_left (y : Int32) : crate.p32e2.math.sleef.pow NAR y = .ok NAR := by
  unfold crate.p32e2.math.sleef.pow; simp [is_nar_eq]; rfl
theorem pow_nar_right (x : Int32) : crate.p32e2.math.sleef.pow x NAR = .ok NAR := by
  unfold crate.p32e2.math.sleef.pow
  by_cases h : x = NAR
  · subst h; simp [is_nar_eq]; rfl
  · have : (x == NAR) = false := by simpa using h
    simp [is_nar_eq, this]; rfl

theorem asin_nar : crate.p32e2.math.sleef.asin NAR = .ok NAR :=
  (Sweep.isOk_iff _ _).mp (by native_decide : Sweep.isOk (crate.p32e2.math.sleef.asin NAR) NAR = true)
theorem acos_nar : crate.p32e2.math.sleef.acos NAR = .ok NAR :=
  (Sweep.isOk_iff _ _).mp (by native_decide : Sweep.isOk (crate.p32e2.math.sleef.acos NAR) NAR = true)
theorem atan_nar : crate.p32e2.math.sleef.atan NAR = .ok NAR :=
  (Sweep.isOk_iff _ _).mp (by native_decide : Sweep.isOk (crate.p32e2.math.sleef.atan NAR) NAR = true)
theorem sinh_nar : crate.p32e2.math.sleef.sinh NAR = .ok NAR :=
  (Sweep.isOk_iff _ _).mp (by native_decide : Sweep.isOk (crate.p32e2.math.sleef.sinh NAR) NAR = true)
theorem cosh_nar : crate.p32e2.math.sleef.cosh NAR = .ok NAR :=
  (Sweep.isOk_iff _ _).mp (by native_decide : Sweep.isOk (crate.p32e2.math.sleef.cosh NAR) NAR = true)
theorem hypot_nar : crate.p32e2.math.sleef.hypot NAR 1073741824 = .ok NAR :=
  (Sweep.isOk_iff _ _).mp (by native_decide : Sweep.isOk (crate.p32e2.math.sleef.hypot NAR 1073741824) NAR = true)

end C15
