import Props.C12Q8
import Props.C12Q8AllShards
/-! # C04 + C12 for Q8E0 at full strength (thorough tier)

`q8_to_posit_all`: for EVERY one of the 2^32 Q8E0 states, `to_posit` returns normally the single posit-rule rounding of the state's
exact value (NaR for the NaR image): the 128 shards of `Props/C12Q8.lean` plus 240 shards of 2^24 states for |value| ≥ 32768.
`q8_history_rounds`: after ANY finite sequence of `+=`/`-=` of products and single posits from the cleared quire whose exact partial
sums stay in the quire's range, `to_posit` is the exact sum rounded once — the statement of C04 for Q8E0 with no further hypothesis. -/
open Gen Sweep SweepG
namespace C12

theorem sumsIn_final (ops : List C04.Op8) : ∀ s, C04.InR s → C04.sumsIn s ops → C04.InR (s + (ops.map C04.Op8.term).sum) := by
  induction ops with
  | nil => intro s h _; simpa using h
  | cons op r ih =>
    intro s _ hs
    have := ih (s + op.term) hs.1 hs.2
    simpa [Int.add_assoc] using this

theorem q8_to_posit_ok_all (s : Nat) (h : s < 4294967296) : q8ToPositOk s = true := by
  by_cases h1 : s < 134217728 ∨ (4160749568 ≤ s ∧ s < 4294967296)
  · exact q8_to_posit_ok_small s h1
  · have hk : (s - 134217728) / 16777216 < 240 := by omega
    exact allRangeTR_imp (q8_to_posit_shards_mid _ hk) s (by omega) (by omega)

/-- **`to_posit` on every real Q8E0 state** -/
theorem q8_to_posit_all (q : Int32) (hn : q.toInt ≠ -2147483648) :
    crate.quire8.convert.Q8E0.to_posit q = .ok (p8 (Spec.round Spec.p8 (mkRat q.toInt 4096))) := by
  have hlt := q.toUInt32.toNat_lt
  have e : q.toInt = (q.toUInt32.toNat : Int) ∨ q.toInt = (q.toUInt32.toNat : Int) - 4294967296 := by
    have hb := q.toBitVec.toInt_eq_toNat_bmod
    have : q.toInt = q.toBitVec.toInt := rfl
    have e2 : q.toUInt32.toNat = q.toBitVec.toNat := rfl
    rw [this, hb, e2, Int.bmod_def]
    simp only [Nat.reducePow]
    split <;> omega
  have hok := q8_to_posit_ok_all _ hlt
  unfold q8ToPositOk at hok
  have e0 : (UInt32.ofNat q.toUInt32.toNat).toInt32 = q := by simp
  rw [e0] at hok
  have e1 : sval32 (UInt32.ofNat q.toUInt32.toNat) = q.toInt := by
    unfold sval32
    simp only [UInt32.ofNat_toNat]
    have hb := q.toBitVec.toInt_eq_toNat_bmod
    have : q.toInt = q.toBitVec.toInt := rfl
    have e2 : q.toUInt32.toNat = q.toBitVec.toNat := rfl
    rw [this, hb, e2, Int.bmod_def]
    simp only [Nat.reducePow]
    split <;> split <;> omega
  have e3 : (q.toUInt32.toNat == 2147483648) = false := by
    apply Bool.eq_false_iff.mpr; intro hh; have := beq_iff_eq.mp hh
    have hb := q.toBitVec.toInt_eq_toNat_bmod
    have h0 : q.toInt = q.toBitVec.toInt := rfl
    have e2 : q.toUInt32.toNat = q.toBitVec.toNat := rfl
    rw [h0, hb, ← e2, this, Int.bmod_def] at hn
    simp at hn
  rw [e1, e3] at hok
  split at hok
  · next p hp =>
    rw [hp]
    simp only [Bool.false_eq_true, if_false, beq_iff_eq] at hok
    congr 1
    rw [← hok]; simp [p8, bits8]
  · cases hok

/-- **C04 for Q8E0, end to end, every history** -/
theorem q8_history_rounds (ops : List C04.Op8) (hreal : ∀ op ∈ ops, op.real) (hs : C04.sumsIn 0 ops) :
    (do let q ← C04.run8 crate.quire8.Q8E0.ZERO ops; crate.quire8.convert.Q8E0.to_posit q) =
      .ok (p8 (Spec.round Spec.p8 (mkRat (ops.map C04.Op8.term).sum 4096))) := by
  obtain ⟨q', h, v⟩ := C04.q8_history_zero ops hreal hs
  rw [h]
  simp only [C04.ok_bind]
  have hf := sumsIn_final ops 0 ⟨by omega, by omega⟩ hs
  have hn : q'.toInt ≠ -2147483648 := by rw [v]; have := hf.1; omega
  rw [q8_to_posit_all q' hn, v]
end C12
