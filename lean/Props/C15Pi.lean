import Gen.P32M
import Spec
import Mathlib.Analysis.Real.Pi.Bounds
/-! # C15 — the three-way split of π used by the argument reduction of `sin`, `cos`, `tan`, `sin_cos`

`PI_A + PI_B + PI_C` (the constants of `src/p32e2/math/sleef.rs`, read from the generated model and decoded with `Spec.toRat`)
is π to within `2·10⁻²⁰` (Mathlib's 20-digit bounds on `Real.pi`).  A reduced argument `x − q·(PI_A+PI_B+PI_C)` with
`q < 2^18` is therefore exact to `6·10⁻¹⁵` — the quantity the 2- and 3-ulp claims for large arguments rest on.  The evaluation
of the constants is by kernel reduction (`decide +kernel`), no native axiom. -/
open Gen
namespace C15

def piSplit : Option Rat := do
  let a ← Spec.toRat Spec.p32 crate.p32e2.math.sleef.PI_A.toUInt32.toNat
  let b ← Spec.toRat Spec.p32 crate.p32e2.math.sleef.PI_B.toUInt32.toNat
  let c ← Spec.toRat Spec.p32 crate.p32e2.math.sleef.PI_C.toUInt32.toNat
  return a + b + c

theorem piSplit_val : piSplit = some ((57952155664616982739 : Rat) / 18446744073709551616) := by decide +kernel

/-- the split constants sum to π within 2e-20 -/
theorem pi_split_close : ∃ q : ℚ, piSplit = some q ∧ |(q : ℝ) - Real.pi| < 2 / 10 ^ 20 := by
  refine ⟨_, piSplit_val, ?_⟩
  have h1 := Real.pi_gt_d20
  have h2 := Real.pi_lt_d20
  rw [abs_lt]; constructor <;> norm_num at * <;> linarith

/-- `P32E2::FRAC_PI_2`-free statement for the halved constants used by `cos`/`tan`: halving is exact in the quire product
    (`PI_x * HALF` is a power-of-two scaling), so the same bound divided by two applies; here: the three halves are exact -/
theorem pi_halves_exact :
    (do let h ← Spec.toRat Spec.p32 crate.p32e2.math.HALF.toUInt32.toNat
        let a ← Spec.toRat Spec.p32 crate.p32e2.math.sleef.PI_A.toUInt32.toNat
        let b ← Spec.toRat Spec.p32 crate.p32e2.math.sleef.PI_B.toUInt32.toNat
        let c ← Spec.toRat Spec.p32 crate.p32e2.math.sleef.PI_C.toUInt32.toNat
        let ra ← Spec.toRat Spec.p32 (Spec.mul Spec.p32 crate.p32e2.math.sleef.PI_A.toUInt32.toNat crate.p32e2.math.HALF.toUInt32.toNat)
        let rb ← Spec.toRat Spec.p32 (Spec.mul Spec.p32 crate.p32e2.math.sleef.PI_B.toUInt32.toNat crate.p32e2.math.HALF.toUInt32.toNat)
        let rc ← Spec.toRat Spec.p32 (Spec.mul Spec.p32 crate.p32e2.math.sleef.PI_C.toUInt32.toNat crate.p32e2.math.HALF.toUInt32.toNat)
        pure (decide (ra = a * h ∧ rb = b * h ∧ rc = c * h ∧ h = 1 / 2))) = some true := by decide +kernel

end C15
