import Props.Shards.C01_p8_add_ker_0
import Props.Shards.C01_p8_add_ker_1
import Props.Shards.C01_p8_add_ker_2
import Props.Shards.C01_p8_add_ker_3
import Props.Shards.C01_p8_add_ker_4
import Props.Shards.C01_p8_add_ker_5
import Props.Shards.C01_p8_add_ker_6
import Props.Shards.C01_p8_add_ker_7
import Props.Shards.C01_p8_add_ker_8
import Props.Shards.C01_p8_add_ker_9
import Props.Shards.C01_p8_add_ker_10
import Props.Shards.C01_p8_add_ker_11
import Props.Shards.C01_p8_add_ker_12
import Props.Shards.C01_p8_add_ker_13
import Props.Shards.C01_p8_add_ker_14
import Props.Shards.C01_p8_add_ker_15
import Props.Shards.C01_p8_add_ker_16
import Props.Shards.C01_p8_add_ker_17
import Props.Shards.C01_p8_add_ker_18
import Props.Shards.C01_p8_add_ker_19
import Props.Shards.C01_p8_add_ker_20
import Props.Shards.C01_p8_add_ker_21
import Props.Shards.C01_p8_add_ker_22
import Props.Shards.C01_p8_add_ker_23
import Props.Shards.C01_p8_add_ker_24
import Props.Shards.C01_p8_add_ker_25
import Props.Shards.C01_p8_add_ker_26
import Props.Shards.C01_p8_add_ker_27
import Props.Shards.C01_p8_add_ker_28
import Props.Shards.C01_p8_add_ker_29
import Props.Shards.C01_p8_add_ker_30
import Props.Shards.C01_p8_add_ker_31
import Props.Shards.C01_p8_add_ker_32
import Props.Shards.C01_p8_add_ker_33
import Props.Shards.C01_p8_add_ker_34
import Props.Shards.C01_p8_add_ker_35
import Props.Shards.C01_p8_add_ker_36
import Props.Shards.C01_p8_add_ker_37
import Props.Shards.C01_p8_add_ker_38
import Props.Shards.C01_p8_add_ker_39
import Props.Shards.C01_p8_add_ker_40
import Props.Shards.C01_p8_add_ker_41
import Props.Shards.C01_p8_add_ker_42
import Props.Shards.C01_p8_add_ker_43
import Props.Shards.C01_p8_add_ker_44
import Props.Shards.C01_p8_add_ker_45
import Props.Shards.C01_p8_add_ker_46
import Props.Shards.C01_p8_add_ker_47
import Props.Shards.C01_p8_add_ker_48
import Props.Shards.C01_p8_add_ker_49
import Props.Shards.C01_p8_add_ker_50
import Props.Shards.C01_p8_add_ker_51
import Props.Shards.C01_p8_add_ker_52
import Props.Shards.C01_p8_add_ker_53
import Props.Shards.C01_p8_add_ker_54
import Props.Shards.C01_p8_add_ker_55
import Props.Shards.C01_p8_add_ker_56
import Props.Shards.C01_p8_add_ker_57
import Props.Shards.C01_p8_add_ker_58
import Props.Shards.C01_p8_add_ker_59
import Props.Shards.C01_p8_add_ker_60
import Props.Shards.C01_p8_add_ker_61
import Props.Shards.C01_p8_add_ker_62
import Props.Shards.C01_p8_add_ker_63
import Props.Shards.C01_p8_sub_ker_0
import Props.Shards.C01_p8_sub_ker_1
import Props.Shards.C01_p8_sub_ker_2
import Props.Shards.C01_p8_sub_ker_3
import Props.Shards.C01_p8_sub_ker_4
import Props.Shards.C01_p8_sub_ker_5
import Props.Shards.C01_p8_sub_ker_6
import Props.Shards.C01_p8_sub_ker_7
import Props.Shards.C01_p8_sub_ker_8
import Props.Shards.C01_p8_sub_ker_9
import Props.Shards.C01_p8_sub_ker_10
import Props.Shards.C01_p8_sub_ker_11
import Props.Shards.C01_p8_sub_ker_12
import Props.Shards.C01_p8_sub_ker_13
import Props.Shards.C01_p8_sub_ker_14
import Props.Shards.C01_p8_sub_ker_15
import Props.Shards.C01_p8_sub_ker_16
import Props.Shards.C01_p8_sub_ker_17
import Props.Shards.C01_p8_sub_ker_18
import Props.Shards.C01_p8_sub_ker_19
import Props.Shards.C01_p8_sub_ker_20
import Props.Shards.C01_p8_sub_ker_21
import Props.Shards.C01_p8_sub_ker_22
import Props.Shards.C01_p8_sub_ker_23
import Props.Shards.C01_p8_sub_ker_24
import Props.Shards.C01_p8_sub_ker_25
import Props.Shards.C01_p8_sub_ker_26
import Props.Shards.C01_p8_sub_ker_27
import Props.Shards.C01_p8_sub_ker_28
import Props.Shards.C01_p8_sub_ker_29
import Props.Shards.C01_p8_sub_ker_30
import Props.Shards.C01_p8_sub_ker_31
import Props.Shards.C01_p8_sub_ker_32
import Props.Shards.C01_p8_sub_ker_33
import Props.Shards.C01_p8_sub_ker_34
import Props.Shards.C01_p8_sub_ker_35
import Props.Shards.C01_p8_sub_ker_36
import Props.Shards.C01_p8_sub_ker_37
import Props.Shards.C01_p8_sub_ker_38
import Props.Shards.C01_p8_sub_ker_39
import Props.Shards.C01_p8_sub_ker_40
import Props.Shards.C01_p8_sub_ker_41
import Props.Shards.C01_p8_sub_ker_42
import Props.Shards.C01_p8_sub_ker_43
import Props.Shards.C01_p8_sub_ker_44
import Props.Shards.C01_p8_sub_ker_45
import Props.Shards.C01_p8_sub_ker_46
import Props.Shards.C01_p8_sub_ker_47
import Props.Shards.C01_p8_sub_ker_48
import Props.Shards.C01_p8_sub_ker_49
import Props.Shards.C01_p8_sub_ker_50
import Props.Shards.C01_p8_sub_ker_51
import Props.Shards.C01_p8_sub_ker_52
import Props.Shards.C01_p8_sub_ker_53
import Props.Shards.C01_p8_sub_ker_54
import Props.Shards.C01_p8_sub_ker_55
import Props.Shards.C01_p8_sub_ker_56
import Props.Shards.C01_p8_sub_ker_57
import Props.Shards.C01_p8_sub_ker_58
import Props.Shards.C01_p8_sub_ker_59
import Props.Shards.C01_p8_sub_ker_60
import Props.Shards.C01_p8_sub_ker_61
import Props.Shards.C01_p8_sub_ker_62
import Props.Shards.C01_p8_sub_ker_63
import Props.Shards.C01_p8_mul_ker_0
import Props.Shards.C01_p8_mul_ker_1
import Props.Shards.C01_p8_mul_ker_2
import Props.Shards.C01_p8_mul_ker_3
import Props.Shards.C01_p8_mul_ker_4
import Props.Shards.C01_p8_mul_ker_5
import Props.Shards.C01_p8_mul_ker_6
import Props.Shards.C01_p8_mul_ker_7
import Props.Shards.C01_p8_mul_ker_8
import Props.Shards.C01_p8_mul_ker_9
import Props.Shards.C01_p8_mul_ker_10
import Props.Shards.C01_p8_mul_ker_11
import Props.Shards.C01_p8_mul_ker_12
import Props.Shards.C01_p8_mul_ker_13
import Props.Shards.C01_p8_mul_ker_14
import Props.Shards.C01_p8_mul_ker_15
import Props.Shards.C01_p8_mul_ker_16
import Props.Shards.C01_p8_mul_ker_17
import Props.Shards.C01_p8_mul_ker_18
import Props.Shards.C01_p8_mul_ker_19
import Props.Shards.C01_p8_mul_ker_20
import Props.Shards.C01_p8_mul_ker_21
import Props.Shards.C01_p8_mul_ker_22
import Props.Shards.C01_p8_mul_ker_23
import Props.Shards.C01_p8_mul_ker_24
import Props.Shards.C01_p8_mul_ker_25
import Props.Shards.C01_p8_mul_ker_26
import Props.Shards.C01_p8_mul_ker_27
import Props.Shards.C01_p8_mul_ker_28
import Props.Shards.C01_p8_mul_ker_29
import Props.Shards.C01_p8_mul_ker_30
import Props.Shards.C01_p8_mul_ker_31
import Props.Shards.C01_p8_mul_ker_32
import Props.Shards.C01_p8_mul_ker_33
import Props.Shards.C01_p8_mul_ker_34
import Props.Shards.C01_p8_mul_ker_35
import Props.Shards.C01_p8_mul_ker_36
import Props.Shards.C01_p8_mul_ker_37
import Props.Shards.C01_p8_mul_ker_38
import Props.Shards.C01_p8_mul_ker_39
import Props.Shards.C01_p8_mul_ker_40
import Props.Shards.C01_p8_mul_ker_41
import Props.Shards.C01_p8_mul_ker_42
import Props.Shards.C01_p8_mul_ker_43
import Props.Shards.C01_p8_mul_ker_44
import Props.Shards.C01_p8_mul_ker_45
import Props.Shards.C01_p8_mul_ker_46
import Props.Shards.C01_p8_mul_ker_47
import Props.Shards.C01_p8_mul_ker_48
import Props.Shards.C01_p8_mul_ker_49
import Props.Shards.C01_p8_mul_ker_50
import Props.Shards.C01_p8_mul_ker_51
import Props.Shards.C01_p8_mul_ker_52
import Props.Shards.C01_p8_mul_ker_53
import Props.Shards.C01_p8_mul_ker_54
import Props.Shards.C01_p8_mul_ker_55
import Props.Shards.C01_p8_mul_ker_56
import Props.Shards.C01_p8_mul_ker_57
import Props.Shards.C01_p8_mul_ker_58
import Props.Shards.C01_p8_mul_ker_59
import Props.Shards.C01_p8_mul_ker_60
import Props.Shards.C01_p8_mul_ker_61
import Props.Shards.C01_p8_mul_ker_62
import Props.Shards.C01_p8_mul_ker_63
import Props.Shards.C01_p8_div_ker_0
import Props.Shards.C01_p8_div_ker_1
import Props.Shards.C01_p8_div_ker_2
import Props.Shards.C01_p8_div_ker_3
import Props.Shards.C01_p8_div_ker_4
import Props.Shards.C01_p8_div_ker_5
import Props.Shards.C01_p8_div_ker_6
import Props.Shards.C01_p8_div_ker_7
import Props.Shards.C01_p8_div_ker_8
import Props.Shards.C01_p8_div_ker_9
import Props.Shards.C01_p8_div_ker_10
import Props.Shards.C01_p8_div_ker_11
import Props.Shards.C01_p8_div_ker_12
import Props.Shards.C01_p8_div_ker_13
import Props.Shards.C01_p8_div_ker_14
import Props.Shards.C01_p8_div_ker_15
import Props.Shards.C01_p8_div_ker_16
import Props.Shards.C01_p8_div_ker_17
import Props.Shards.C01_p8_div_ker_18
import Props.Shards.C01_p8_div_ker_19
import Props.Shards.C01_p8_div_ker_20
import Props.Shards.C01_p8_div_ker_21
import Props.Shards.C01_p8_div_ker_22
import Props.Shards.C01_p8_div_ker_23
import Props.Shards.C01_p8_div_ker_24
import Props.Shards.C01_p8_div_ker_25
import Props.Shards.C01_p8_div_ker_26
import Props.Shards.C01_p8_div_ker_27
import Props.Shards.C01_p8_div_ker_28
import Props.Shards.C01_p8_div_ker_29
import Props.Shards.C01_p8_div_ker_30
import Props.Shards.C01_p8_div_ker_31
import Props.Shards.C01_p8_div_ker_32
import Props.Shards.C01_p8_div_ker_33
import Props.Shards.C01_p8_div_ker_34
import Props.Shards.C01_p8_div_ker_35
import Props.Shards.C01_p8_div_ker_36
import Props.Shards.C01_p8_div_ker_37
import Props.Shards.C01_p8_div_ker_38
import Props.Shards.C01_p8_div_ker_39
import Props.Shards.C01_p8_div_ker_40
import Props.Shards.C01_p8_div_ker_41
import Props.Shards.C01_p8_div_ker_42
import Props.Shards.C01_p8_div_ker_43
import Props.Shards.C01_p8_div_ker_44
import Props.Shards.C01_p8_div_ker_45
import Props.Shards.C01_p8_div_ker_46
import Props.Shards.C01_p8_div_ker_47
import Props.Shards.C01_p8_div_ker_48
import Props.Shards.C01_p8_div_ker_49
import Props.Shards.C01_p8_div_ker_50
import Props.Shards.C01_p8_div_ker_51
import Props.Shards.C01_p8_div_ker_52
import Props.Shards.C01_p8_div_ker_53
import Props.Shards.C01_p8_div_ker_54
import Props.Shards.C01_p8_div_ker_55
import Props.Shards.C01_p8_div_ker_56
import Props.Shards.C01_p8_div_ker_57
import Props.Shards.C01_p8_div_ker_58
import Props.Shards.C01_p8_div_ker_59
import Props.Shards.C01_p8_div_ker_60
import Props.Shards.C01_p8_div_ker_61
import Props.Shards.C01_p8_div_ker_62
import Props.Shards.C01_p8_div_ker_63
import Lemmas.Bits
/-! # C01 — sharded exhaustive sweeps recombined (GENERATED by tools/mkshards.py) -/
open Gen Sweep
namespace C01

theorem p8_add_ker : Holds2 crate.p8e0.ops.P8E0.add (fun a b => Spec.add Spec.p8 a b) :=
  holds2_of_shards _ _ 64 4 (by decide) (by decide) (fun k hk =>
    match k, hk with
    | 0, _ => p8_add_ker_shard0
    | 1, _ => p8_add_ker_shard1
    | 2, _ => p8_add_ker_shard2
    | 3, _ => p8_add_ker_shard3
    | 4, _ => p8_add_ker_shard4
    | 5, _ => p8_add_ker_shard5
    | 6, _ => p8_add_ker_shard6
    | 7, _ => p8_add_ker_shard7
    | 8, _ => p8_add_ker_shard8
    | 9, _ => p8_add_ker_shard9
    | 10, _ => p8_add_ker_shard10
    | 11, _ => p8_add_ker_shard11
    | 12, _ => p8_add_ker_shard12
    | 13, _ => p8_add_ker_shard13
    | 14, _ => p8_add_ker_shard14
    | 15, _ => p8_add_ker_shard15
    | 16, _ => p8_add_ker_shard16
    | 17, _ => p8_add_ker_shard17
    | 18, _ => p8_add_ker_shard18
    | 19, _ => p8_add_ker_shard19
    | 20, _ => p8_add_ker_shard20
    | 21, _ => p8_add_ker_shard21
    | 22, _ => p8_add_ker_shard22
    | 23, _ => p8_add_ker_shard23
    | 24, _ => p8_add_ker_shard24
    | 25, _ => p8_add_ker_shard25
    | 26, _ => p8_add_ker_shard26
    | 27, _ => p8_add_ker_shard27
    | 28, _ => p8_add_ker_shard28
    | 29, _ => p8_add_ker_shard29
    | 30, _ => p8_add_ker_shard30
    | 31, _ => p8_add_ker_shard31
    | 32, _ => p8_add_ker_shard32
    | 33, _ => p8_add_ker_shard33
    | 34, _ => p8_add_ker_shard34
    | 35, _ => p8_add_ker_shard35
    | 36, _ => p8_add_ker_shard36
    | 37, _ => p8_add_ker_shard37
    | 38, _ => p8_add_ker_shard38
    | 39, _ => p8_add_ker_shard39
    | 40, _ => p8_add_ker_shard40
    | 41, _ => p8_add_ker_shard41
    | 42, _ => p8_add_ker_shard42
    | 43, _ => p8_add_ker_shard43
    | 44, _ => p8_add_ker_shard44
    | 45, _ => p8_add_ker_shard45
    | 46, _ => p8_add_ker_shard46
    | 47, _ => p8_add_ker_shard47
    | 48, _ => p8_add_ker_shard48
    | 49, _ => p8_add_ker_shard49
    | 50, _ => p8_add_ker_shard50
    | 51, _ => p8_add_ker_shard51
    | 52, _ => p8_add_ker_shard52
    | 53, _ => p8_add_ker_shard53
    | 54, _ => p8_add_ker_shard54
    | 55, _ => p8_add_ker_shard55
    | 56, _ => p8_add_ker_shard56
    | 57, _ => p8_add_ker_shard57
    | 58, _ => p8_add_ker_shard58
    | 59, _ => p8_add_ker_shard59
    | 60, _ => p8_add_ker_shard60
    | 61, _ => p8_add_ker_shard61
    | 62, _ => p8_add_ker_shard62
    | 63, _ => p8_add_ker_shard63
    | n + 64, h => absurd h (by omega))

theorem p8_sub_ker : Holds2 crate.p8e0.ops.P8E0.sub (fun a b => Spec.sub Spec.p8 a b) :=
  holds2_of_shards _ _ 64 4 (by decide) (by decide) (fun k hk =>
    match k, hk with
    | 0, _ => p8_sub_ker_shard0
    | 1, _ => p8_sub_ker_shard1
    | 2, _ => p8_sub_ker_shard2
    | 3, _ => p8_sub_ker_shard3
    | 4, _ => p8_sub_ker_shard4
    | 5, _ => p8_sub_ker_shard5
    | 6, _ => p8_sub_ker_shard6
    | 7, _ => p8_sub_ker_shard7
    | 8, _ => p8_sub_ker_shard8
    | 9, _ => p8_sub_ker_shard9
    | 10, _ => p8_sub_ker_shard10
    | 11, _ => p8_sub_ker_shard11
    | 12, _ => p8_sub_ker_shard12
    | 13, _ => p8_sub_ker_shard13
    | 14, _ => p8_sub_ker_shard14
    | 15, _ => p8_sub_ker_shard15
    | 16, _ => p8_sub_ker_shard16
    | 17, _ => p8_sub_ker_shard17
    | 18, _ => p8_sub_ker_shard18
    | 19, _ => p8_sub_ker_shard19
    | 20, _ => p8_sub_ker_shard20
    | 21, _ => p8_sub_ker_shard21
    | 22, _ => p8_sub_ker_shard22
    | 23, _ => p8_sub_ker_shard23
    | 24, _ => p8_sub_ker_shard24
    | 25, _ => p8_sub_ker_shard25
    | 26, _ => p8_sub_ker_shard26
    | 27, _ => p8_sub_ker_shard27
    | 28, _ => p8_sub_ker_shard28
    | 29, _ => p8_sub_ker_shard29
    | 30, _ => p8_sub_ker_shard30
    | 31, _ => p8_sub_ker_shard31
    | 32, _ => p8_sub_ker_shard32
    | 33, _ => p8_sub_ker_shard33
    | 34, _ => p8_sub_ker_shard34
    | 35, _ => p8_sub_ker_shard35
    | 36, _ => p8_sub_ker_shard36
    | 37, _ => p8_sub_ker_shard37
    | 38, _ => p8_sub_ker_shard38
    | 39, _ => p8_sub_ker_shard39
    | 40, _ => p8_sub_ker_shard40
    | 41, _ => p8_sub_ker_shard41
    | 42, _ => p8_sub_ker_shard42
    | 43, _ => p8_sub_ker_shard43
    | 44, _ => p8_sub_ker_shard44
    | 45, _ => p8_sub_ker_shard45
    | 46, _ => p8_sub_ker_shard46
    | 47, _ => p8_sub_ker_shard47
    | 48, _ => p8_sub_ker_shard48
    | 49, _ => p8_sub_ker_shard49
    | 50, _ => p8_sub_ker_shard50
    | 51, _ => p8_sub_ker_shard51
    | 52, _ => p8_sub_ker_shard52
    | 53, _ => p8_sub_ker_shard53
    | 54, _ => p8_sub_ker_shard54
    | 55, _ => p8_sub_ker_shard55
    | 56, _ => p8_sub_ker_shard56
    | 57, _ => p8_sub_ker_shard57
    | 58, _ => p8_sub_ker_shard58
    | 59, _ => p8_sub_ker_shard59
    | 60, _ => p8_sub_ker_shard60
    | 61, _ => p8_sub_ker_shard61
    | 62, _ => p8_sub_ker_shard62
    | 63, _ => p8_sub_ker_shard63
    | n + 64, h => absurd h (by omega))

theorem p8_mul_ker : Holds2 crate.p8e0.ops.P8E0.mul (fun a b => Spec.mul Spec.p8 a b) :=
  holds2_of_shards _ _ 64 4 (by decide) (by decide) (fun k hk =>
    match k, hk with
    | 0, _ => p8_mul_ker_shard0
    | 1, _ => p8_mul_ker_shard1
    | 2, _ => p8_mul_ker_shard2
    | 3, _ => p8_mul_ker_shard3
    | 4, _ => p8_mul_ker_shard4
    | 5, _ => p8_mul_ker_shard5
    | 6, _ => p8_mul_ker_shard6
    | 7, _ => p8_mul_ker_shard7
    | 8, _ => p8_mul_ker_shard8
    | 9, _ => p8_mul_ker_shard9
    | 10, _ => p8_mul_ker_shard10
    | 11, _ => p8_mul_ker_shard11
    | 12, _ => p8_mul_ker_shard12
    | 13, _ => p8_mul_ker_shard13
    | 14, _ => p8_mul_ker_shard14
    | 15, _ => p8_mul_ker_shard15
    | 16, _ => p8_mul_ker_shard16
    | 17, _ => p8_mul_ker_shard17
    | 18, _ => p8_mul_ker_shard18
    | 19, _ => p8_mul_ker_shard19
    | 20, _ => p8_mul_ker_shard20
    | 21, _ => p8_mul_ker_shard21
    | 22, _ => p8_mul_ker_shard22
    | 23, _ => p8_mul_ker_shard23
    | 24, _ => p8_mul_ker_shard24
    | 25, _ => p8_mul_ker_shard25
    | 26, _ => p8_mul_ker_shard26
    | 27, _ => p8_mul_ker_shard27
    | 28, _ => p8_mul_ker_shard28
    | 29, _ => p8_mul_ker_shard29
    | 30, _ => p8_mul_ker_shard30
    | 31, _ => p8_mul_ker_shard31
    | 32, _ => p8_mul_ker_shard32
    | 33, _ => p8_mul_ker_shard33
    | 34, _ => p8_mul_ker_shard34
    | 35, _ => p8_mul_ker_shard35
    | 36, _ => p8_mul_ker_shard36
    | 37, _ => p8_mul_ker_shard37
    | 38, _ => p8_mul_ker_shard38
    | 39, _ => p8_mul_ker_shard39
    | 40, _ => p8_mul_ker_shard40
    | 41, _ => p8_mul_ker_shard41
    | 42, _ => p8_mul_ker_shard42
    | 43, _ => p8_mul_ker_shard43
    | 44, _ => p8_mul_ker_shard44
    | 45, _ => p8_mul_ker_shard45
    | 46, _ => p8_mul_ker_shard46
    | 47, _ => p8_mul_ker_shard47
    | 48, _ => p8_mul_ker_shard48
    | 49, _ => p8_mul_ker_shard49
    | 50, _ => p8_mul_ker_shard50
    | 51, _ => p8_mul_ker_shard51
    | 52, _ => p8_mul_ker_shard52
    | 53, _ => p8_mul_ker_shard53
    | 54, _ => p8_mul_ker_shard54
    | 55, _ => p8_mul_ker_shard55
    | 56, _ => p8_mul_ker_shard56
    | 57, _ => p8_mul_ker_shard57
    | 58, _ => p8_mul_ker_shard58
    | 59, _ => p8_mul_ker_shard59
    | 60, _ => p8_mul_ker_shard60
    | 61, _ => p8_mul_ker_shard61
    | 62, _ => p8_mul_ker_shard62
    | 63, _ => p8_mul_ker_shard63
    | n + 64, h => absurd h (by omega))

theorem p8_div_ker : Holds2 crate.p8e0.ops.P8E0.div (fun a b => Spec.div Spec.p8 a b) :=
  holds2_of_shards _ _ 64 4 (by decide) (by decide) (fun k hk =>
    match k, hk with
    | 0, _ => p8_div_ker_shard0
    | 1, _ => p8_div_ker_shard1
    | 2, _ => p8_div_ker_shard2
    | 3, _ => p8_div_ker_shard3
    | 4, _ => p8_div_ker_shard4
    | 5, _ => p8_div_ker_shard5
    | 6, _ => p8_div_ker_shard6
    | 7, _ => p8_div_ker_shard7
    | 8, _ => p8_div_ker_shard8
    | 9, _ => p8_div_ker_shard9
    | 10, _ => p8_div_ker_shard10
    | 11, _ => p8_div_ker_shard11
    | 12, _ => p8_div_ker_shard12
    | 13, _ => p8_div_ker_shard13
    | 14, _ => p8_div_ker_shard14
    | 15, _ => p8_div_ker_shard15
    | 16, _ => p8_div_ker_shard16
    | 17, _ => p8_div_ker_shard17
    | 18, _ => p8_div_ker_shard18
    | 19, _ => p8_div_ker_shard19
    | 20, _ => p8_div_ker_shard20
    | 21, _ => p8_div_ker_shard21
    | 22, _ => p8_div_ker_shard22
    | 23, _ => p8_div_ker_shard23
    | 24, _ => p8_div_ker_shard24
    | 25, _ => p8_div_ker_shard25
    | 26, _ => p8_div_ker_shard26
    | 27, _ => p8_div_ker_shard27
    | 28, _ => p8_div_ker_shard28
    | 29, _ => p8_div_ker_shard29
    | 30, _ => p8_div_ker_shard30
    | 31, _ => p8_div_ker_shard31
    | 32, _ => p8_div_ker_shard32
    | 33, _ => p8_div_ker_shard33
    | 34, _ => p8_div_ker_shard34
    | 35, _ => p8_div_ker_shard35
    | 36, _ => p8_div_ker_shard36
    | 37, _ => p8_div_ker_shard37
    | 38, _ => p8_div_ker_shard38
    | 39, _ => p8_div_ker_shard39
    | 40, _ => p8_div_ker_shard40
    | 41, _ => p8_div_ker_shard41
    | 42, _ => p8_div_ker_shard42
    | 43, _ => p8_div_ker_shard43
    | 44, _ => p8_div_ker_shard44
    | 45, _ => p8_div_ker_shard45
    | 46, _ => p8_div_ker_shard46
    | 47, _ => p8_div_ker_shard47
    | 48, _ => p8_div_ker_shard48
    | 49, _ => p8_div_ker_shard49
    | 50, _ => p8_div_ker_shard50
    | 51, _ => p8_div_ker_shard51
    | 52, _ => p8_div_ker_shard52
    | 53, _ => p8_div_ker_shard53
    | 54, _ => p8_div_ker_shard54
    | 55, _ => p8_div_ker_shard55
    | 56, _ => p8_div_ker_shard56
    | 57, _ => p8_div_ker_shard57
    | 58, _ => p8_div_ker_shard58
    | 59, _ => p8_div_ker_shard59
    | 60, _ => p8_div_ker_shard60
    | 61, _ => p8_div_ker_shard61
    | 62, _ => p8_div_ker_shard62
    | 63, _ => p8_div_ker_shard63
    | n + 64, h => absurd h (by omega))

end C01
