import Props.C12Q8Shards
import Props.C04Hist
/-! # C04 + C12, Q8E0 end to end (partial: |sum| < 32768)

* `q8_to_posit_small`: for EVERY Q8E0 state whose value is below 32768 in magnitude (2^28 of the 2^32 states; P8E0's maxpos is 64,
  so every state that does not saturate by a factor of 512 is inside), `to_posit` returns normally the single posit-rule rounding of
  the state's exact value (NAT, 128 shards of 2^21 states).
* `q8_history_rounds_partial`: composed with `C04.q8_history` — after ANY finite sequence of `+=`/`-=` of products and single posits
  from the cleared quire whose exact partial sums stay in the quire's range and whose final sum is below 32768 in magnitude,
  `to_posit` is the exact sum rounded once.  This is the statement of C04 for Q8E0 at full strength except for the bound on the
  final sum (the remaining states all round to ±maxpos; sweeping them costs 2^32 evaluations and is not in any tier — `_partial`). -/
open Gen Sweep SweepG
namespace C12

theorem q8_to_posit_ok_small (s : Nat) (h : s < 134217728 ∨ (4160749568 ≤ s ∧ s < 4294967296)) : q8ToPositOk s = true := by
  rcases h with h | ⟨h1, h2⟩
  · have hk : s / 2097152 < 64 := by omega
    exact allRangeTR_imp (q8_to_posit_shards_lo _ hk) s (by omega) (by omega)
  · have hk : (s - 4160749568) / 2097152 < 64 := by omega
    exact allRangeTR_imp (q8_to_posit_shards_hi _ hk) s (by omega) (by omega)

/-- **`to_posit` on every Q8E0 state with |value| < 32768** -/
theorem q8_to_posit_small (q : Int32) (h1 : -134217728 ≤ q.toInt) (h2 : q.toInt < 134217728) :
    crate.quire8.convert.Q8E0.to_posit q = .ok (p8 (Spec.round Spec.p8 (mkRat q.toInt 4096))) := by
  have hs : q.toUInt32.toNat < 134217728 ∨ (4160749568 ≤ q.toUInt32.toNat ∧ q.toUInt32.toNat < 4294967296) := by
    have := q.toUInt32.toNat_lt
    have e : q.toInt = (q.toUInt32.toNat : Int) ∨ q.toInt = (q.toUInt32.toNat : Int) - 4294967296 := by
      have hb := q.toBitVec.toInt_eq_toNat_bmod
      have : q.toInt = q.toBitVec.toInt := rfl
      have e2 : q.toUInt32.toNat = q.toBitVec.toNat := rfl
      rw [this, hb, e2, Int.bmod_def]
      simp only [Nat.reducePow]
      split <;> omega
    omega
  have hok := q8_to_posit_ok_small _ hs
  unfold q8ToPositOk at hok
  have e0 : (UInt32.ofNat q.toUInt32.toNat).toInt32 = q := by simp
  rw [e0] at hok
  have e1 : sval32 (UInt32.ofNat q.toUInt32.toNat) = q.toInt := by
    unfold sval32
    simp only [UInt32.ofNat_toNat]
    have hb := q.toBitVec.toInt_eq_toNat_bmod
    have : q.toInt = q.toBitVec.toInt := rfl
    have e2 : q.toUInt32.toNat = q.toBitVec.toNat := rfl
    rw [this, hb, e2, Int.bmod_def]
    simp only [Nat.reducePow]
    split <;> split <;> omega
  have e3 : (q.toUInt32.toNat == 2147483648) = false := by
    apply Bool.eq_false_iff.mpr; intro hh; have := beq_iff_eq.mp hh; omega
  rw [e1, e3] at hok
  split at hok
  · next p hp =>
    rw [hp]
    simp only [Bool.false_eq_true, if_false, beq_iff_eq] at hok
    congr 1
    rw [← hok]; simp [p8, bits8]
  · cases hok

/-- **C04 for Q8E0, end to end (partial: |final sum| < 32768)** -/
theorem q8_history_rounds_partial (ops : List C04.Op8) (hreal : ∀ op ∈ ops, op.real) (hs : C04.sumsIn 0 ops)
    (hb1 : -134217728 ≤ (ops.map C04.Op8.term).sum) (hb2 : (ops.map C04.Op8.term).sum < 134217728) :
    (do let q ← C04.run8 crate.quire8.Q8E0.ZERO ops; crate.quire8.convert.Q8E0.to_posit q) =
      .ok (p8 (Spec.round Spec.p8 (mkRat (ops.map C04.Op8.term).sum 4096))) := by
  obtain ⟨q', h, v⟩ := C04.q8_history_zero ops hreal hs
  rw [h]
  simp only [C04.ok_bind]
  rw [q8_to_posit_small q' (by rw [v]; exact hb1) (by rw [v]; exact hb2), v]
end C12
