import SweepG
import Lemmas.Sweep
import Lemmas.Rs
/-! # C04 — Q8E0: the accumulation step from ANY state, and every finite history (GEN + per-operand NAT sweeps)

`fdp` / `fdp_one` are factored (for all 2^32 states, symbolically) into `q ↦ norm (q + δ)`, where `δ` does not depend on the
accumulator; `δ` is checked against the exact product for all operand pairs; the wrap-around addition is exact while the sum
stays inside the quire range.  Induction over the list of operations then gives: after ANY finite sequence of
`+= (a,b)`, `-= (a,b)`, `+= a`, `-= a` from the cleared quire whose exact partial sums stay in range, the accumulator holds
exactly the sum (`q.toInt = 4096 · Σ`), NaR operands make it NaR for good.  Order independence follows because the right-hand
side is a finite sum of integers.  Axioms: propext, Quot.sound, Classical.choice + the native_decide axioms of the sweeps. -/
open Gen Sweep SweepG
namespace C04

/-! ## factoring out the accumulator (all states, all operands; no enumeration) -/
theorem nar_bits (q : Int32) : (Rs.cast_i32_u32 q == 2147483648) = (q == crate.quire8.Q8E0.NAR) := by
  rw [Rs.cast_i32_u32_eq]
  have hn : crate.quire8.Q8E0.NAR = (-2147483648 : Int32) := rfl
  rw [hn]
  apply Bool.eq_iff_iff.mpr
  simp only [beq_iff_eq]
  constructor
  · intro h
    apply Int32.toBitVec_inj.mp
    have := congrArg UInt32.toBitVec h
    simpa using this
  · intro h; rw [h]; rfl

theorem ite_ok {α} (c : Prop) [Decidable c] (x y : α) :
    (if c then (pure ((), x) : Rs.M (Unit × α)) else pure ((), y)) = Except.ok ((), if c then x else y) := by
  split <;> rfl

/-- the wrap-around addition and NaR-normalisation at the end of `fdp` -/
def q8Finish (q : Int32) (d : UInt32) : Int32 :=
  let z := Rs.cast_u32_i32 (Rs.wrapping_add_u32 d (Rs.cast_i32_u32 q))
  if z == crate.quire8.Q8E0.NAR then crate.quire8.Q8E0.ZERO else z

theorem q8_fdp_factor (q : Int32) (a b : UInt8) (plus : Bool) :
    crate.quire8.ops.fdp q a b plus =
      (if q == crate.quire8.Q8E0.NAR || a == 128 || b == 128 then .ok ((), crate.quire8.Q8E0.NAR)
       else if a == 0 || b == 0 then .ok ((), q)
       else do let d ← q8Delta a b plus; .ok ((), q8Finish q d)) := by
  unfold crate.quire8.ops.fdp q8Delta q8Finish
  simp only [crate.quire8.Q8E0.to_bits, crate.quire8.Q8E0.is_nar, crate.quire8.Q8E0.from_bits, crate.p8e0.P8E0.sign_ui,
    pure_bind, bind_assoc, nar_bits]
  by_cases hq : q == crate.quire8.Q8E0.NAR <;> by_cases ha : a == 128 <;> by_cases hb : b == 128 <;>
    by_cases hz : (a == 0 || b == 0) <;> simp only [hq, ha, hb, hz, Bool.not_true, Bool.not_false, Bool.true_or, Bool.or_true,
      Bool.false_or, Bool.or_false, if_true, if_false, Bool.false_eq_true] <;> try rfl
  generalize hsa : (a &&& crate.p8e0.P8E0.SIGN_MASK != 0) = sa
  generalize hsb : (b &&& crate.p8e0.P8E0.SIGN_MASK != 0) = sb
  cases sa <;> cases sb <;> cases plus <;>
    simp only [if_true, if_false, Bool.false_eq_true, bind_assoc, pure_bind, bne_self_eq_false, Bool.not_false, Bool.not_true,
      Bool.true_bne, Bool.false_bne, Bool.bne_true, Bool.bne_false, Bool.not_not, ite_ok]

theorem q8_fdp_one_factor (q : Int32) (a : UInt8) (plus : Bool) :
    crate.quire8.ops.fdp_one q a plus =
      (if q == crate.quire8.Q8E0.NAR || a == 128 then .ok ((), crate.quire8.Q8E0.NAR)
       else if a == 0 then .ok ((), q)
       else do let d ← q8Delta1 a plus; .ok ((), q8Finish q d)) := by
  unfold crate.quire8.ops.fdp_one q8Delta1 q8Finish
  simp only [crate.quire8.Q8E0.to_bits, crate.quire8.Q8E0.is_nar, crate.quire8.Q8E0.from_bits, crate.p8e0.P8E0.sign_ui,
    pure_bind, bind_assoc, nar_bits]
  by_cases hq : q == crate.quire8.Q8E0.NAR <;> by_cases ha : a == 128 <;>
    by_cases hz : (a == 0) <;> simp only [hq, ha, hz, Bool.not_true, Bool.not_false, Bool.true_or, Bool.or_true,
      Bool.false_or, Bool.or_false, if_true, if_false, Bool.false_eq_true] <;> try rfl
  generalize hsa : (a &&& crate.p8e0.P8E0.SIGN_MASK != 0) = sa
  cases sa <;> cases plus <;>
    simp only [if_true, if_false, Bool.false_eq_true, bind_assoc, pure_bind, bne_self_eq_false, Bool.not_false, Bool.not_true,
      Bool.true_bne, Bool.false_bne, Bool.bne_true, Bool.bne_false, Bool.not_not, ite_ok]

/-! ## δ is the exact product (all operand pairs: NAT sweeps) -/
theorem q8_delta_add_sweep : all2 256 256 (q8DeltaOk true) = true := by native_decide
theorem q8_delta_sub_sweep : all2 256 256 (q8DeltaOk false) = true := by native_decide
theorem q8_delta1_add_sweep : all1 256 (q8Delta1Ok true) = true := by native_decide
theorem q8_delta1_sub_sweep : all1 256 (q8Delta1Ok false) = true := by native_decide
theorem v64_exact_sweep : all1 256 v64Exact = true := by native_decide

theorem q8_delta (plus : Bool) (a b : UInt8) (ha : a ≠ 0) (ha' : a ≠ 128) (hb : b ≠ 0) (hb' : b ≠ 128) :
    ∃ d, q8Delta a b plus = .ok d ∧ sval32 d = sgn plus * v64 a.toNat * v64 b.toNat := by
  have h : q8DeltaOk plus a.toNat b.toNat = true := by
    cases plus
    · exact all2_imp q8_delta_sub_sweep _ a.toNat_lt _ b.toNat_lt
    · exact all2_imp q8_delta_add_sweep _ a.toNat_lt _ b.toNat_lt
  unfold q8DeltaOk at h
  have e1 : (a.toNat == 0) = false := by simpa [← UInt8.toNat_inj] using ha
  have e2 : (a.toNat == 128) = false := by simpa [← UInt8.toNat_inj] using ha'
  have e3 : (b.toNat == 0) = false := by simpa [← UInt8.toNat_inj] using hb
  have e4 : (b.toNat == 128) = false := by simpa [← UInt8.toNat_inj] using hb'
  simp only [e1, e2, e3, e4, Bool.or_false, Bool.false_eq_true, if_false, UInt8.ofNat_toNat] at h
  split at h
  · next d hd => exact ⟨d, hd, by simpa using h⟩
  · cases h

theorem q8_delta1 (plus : Bool) (a : UInt8) (ha : a ≠ 0) (ha' : a ≠ 128) :
    ∃ d, q8Delta1 a plus = .ok d ∧ sval32 d = sgn plus * v64 a.toNat * 64 := by
  have h : q8Delta1Ok plus a.toNat = true := by
    cases plus
    · exact all1_imp q8_delta1_sub_sweep _ a.toNat_lt
    · exact all1_imp q8_delta1_add_sweep _ a.toNat_lt
  unfold q8Delta1Ok at h
  have e1 : (a.toNat == 0) = false := by simpa [← UInt8.toNat_inj] using ha
  have e2 : (a.toNat == 128) = false := by simpa [← UInt8.toNat_inj] using ha'
  simp only [e1, e2, Bool.or_false, Bool.false_eq_true, if_false, UInt8.ofNat_toNat] at h
  split at h
  · next d hd => exact ⟨d, hd, by simpa using h⟩
  · cases h

/-! ## the wrap-around addition is exact inside the quire range -/
theorem toInt_quire_add (q : Int32) (d : UInt32)
    (h1 : -2147483648 ≤ q.toInt + sval32 d) (h2 : q.toInt + sval32 d < 2147483648) :
    (Rs.cast_u32_i32 (Rs.wrapping_add_u32 d (Rs.cast_i32_u32 q))).toInt = q.toInt + sval32 d := by
  unfold Rs.cast_u32_i32 Rs.wrapping_add_u32 Rs.cast_i32_u32 Rs.ofInt_i32 Rs.toInt_u32 Rs.ofInt_u32 Rs.toInt_i32
  rw [Int32.toInt_ofInt]
  have hq := q.toInt_lt; have hq' := q.le_toInt
  have hd := d.toNat_lt
  unfold sval32 at *
  simp only [UInt32.toNat_ofNat', Int32.size] at *
  rw [Int.bmod_def]
  simp only [Nat.reducePow] at *
  split at h1 <;> split <;> omega

theorem nar_toInt : crate.quire8.Q8E0.NAR.toInt = -2147483648 := by decide
theorem ne_nar_of_toInt {q : Int32} (h : -2147483648 < q.toInt) : (q == crate.quire8.Q8E0.NAR) = false := by
  apply Bool.eq_false_iff.mpr
  intro hq
  rw [beq_iff_eq.mp hq, nar_toInt] at h
  omega

theorem q8Finish_toInt (q : Int32) (d : UInt32)
    (h1 : -2147483648 < q.toInt + sval32 d) (h2 : q.toInt + sval32 d < 2147483648) :
    (q8Finish q d).toInt = q.toInt + sval32 d := by
  unfold q8Finish
  have hz := toInt_quire_add q d (by omega) h2
  simp only []
  rw [ne_nar_of_toInt (by rw [hz]; exact h1)]
  simpa using hz

/-! ## one step from an arbitrary (non-NaR) state -/
theorem v64_zero : v64 0 = 0 := by native_decide

/-- **C04 step, Q8E0**: from ANY non-NaR state, `q ±= (a, b)` adds exactly `±a·b` (scaled by 4096) as long as the exact
result stays inside the quire range -/
theorem q8_step (q : Int32) (a b : UInt8) (plus : Bool) (hq : -2147483648 < q.toInt) (ha : a ≠ 128) (hb : b ≠ 128)
    (h1 : -2147483648 < q.toInt + sgn plus * v64 a.toNat * v64 b.toNat)
    (h2 : q.toInt + sgn plus * v64 a.toNat * v64 b.toNat < 2147483648) :
    ∃ q', crate.quire8.ops.fdp q a b plus = .ok ((), q') ∧ q'.toInt = q.toInt + sgn plus * v64 a.toNat * v64 b.toNat := by
  rw [q8_fdp_factor]
  have e1 : (a == 128) = false := by simpa using ha
  have e2 : (b == 128) = false := by simpa using hb
  simp only [ne_nar_of_toInt hq, e1, e2, Bool.or_false, Bool.false_eq_true, if_false]
  by_cases hz : (a == 0 || b == 0) = true
  · simp only [hz, if_true]
    refine ⟨q, rfl, ?_⟩
    rcases Bool.or_eq_true_iff.mp hz with h | h
    · rw [beq_iff_eq.mp h]; simp [v64_zero]
    · rw [beq_iff_eq.mp h]; simp [v64_zero]
  · simp only [hz, if_false]
    have ha0 : a ≠ 0 := by intro h; apply hz; simp [h]
    have hb0 : b ≠ 0 := by intro h; apply hz; simp [h]
    obtain ⟨d, hd, hv⟩ := q8_delta plus a b ha0 ha hb0 hb
    rw [hd]
    refine ⟨_, rfl, ?_⟩
    rw [q8Finish_toInt q d (by rw [hv]; exact h1) (by rw [hv]; exact h2), hv]

/-- NaR is absorbing: a NaR state or a NaR operand gives the NaR state -/
theorem q8_step_nar (q : Int32) (a b : UInt8) (plus : Bool) (h : q = crate.quire8.Q8E0.NAR ∨ a = 128 ∨ b = 128) :
    crate.quire8.ops.fdp q a b plus = .ok ((), crate.quire8.Q8E0.NAR) := by
  rw [q8_fdp_factor]
  have : (q == crate.quire8.Q8E0.NAR || a == 128 || b == 128) = true := by
    rcases h with h | h | h <;> simp [h]
  simp [this]

/-- **C04 step, Q8E0, single posit**: `q ±= a` adds exactly `±a` -/
theorem q8_step_one (q : Int32) (a : UInt8) (plus : Bool) (hq : -2147483648 < q.toInt) (ha : a ≠ 128)
    (h1 : -2147483648 < q.toInt + sgn plus * v64 a.toNat * 64)
    (h2 : q.toInt + sgn plus * v64 a.toNat * 64 < 2147483648) :
    ∃ q', crate.quire8.ops.fdp_one q a plus = .ok ((), q') ∧ q'.toInt = q.toInt + sgn plus * v64 a.toNat * 64 := by
  rw [q8_fdp_one_factor]
  have e1 : (a == 128) = false := by simpa using ha
  simp only [ne_nar_of_toInt hq, e1, Bool.or_false, Bool.false_eq_true, if_false]
  by_cases hz : (a == 0) = true
  · simp only [hz, if_true]
    refine ⟨q, rfl, ?_⟩
    rw [beq_iff_eq.mp hz]; simp [v64_zero]
  · simp only [hz, if_false]
    have ha0 : a ≠ 0 := by intro h; apply hz; simp [h]
    obtain ⟨d, hd, hv⟩ := q8_delta1 plus a ha0 ha
    rw [hd]
    refine ⟨_, rfl, ?_⟩
    rw [q8Finish_toInt q d (by rw [hv]; exact h1) (by rw [hv]; exact h2), hv]

theorem q8_step_one_nar (q : Int32) (a : UInt8) (plus : Bool) (h : q = crate.quire8.Q8E0.NAR ∨ a = 128) :
    crate.quire8.ops.fdp_one q a plus = .ok ((), crate.quire8.Q8E0.NAR) := by
  rw [q8_fdp_one_factor]
  have : (q == crate.quire8.Q8E0.NAR || a == 128) = true := by
    rcases h with h | h <;> simp [h]
  simp [this]

/-! ## every finite history (induction over the list of operations) -/
@[simp] theorem ok_bind {α β} (v : α) (f : α → Rs.M β) : ((Except.ok v : Rs.M α) >>= f) = f v := rfl
@[simp] theorem map_ok {α β} (v : α) (f : α → β) : (f <$> (Except.ok v : Rs.M α)) = Except.ok (f v) := rfl
/-- an accumulation: `q += (a,b)` / `q -= (a,b)` / `q += a` / `q -= a` -/
inductive Op8
  | prod (plus : Bool) (a b : UInt8)
  | one (plus : Bool) (a : UInt8)

/-- the exact term an operation contributes, scaled by 4096 = 2^12 (the quire's fixed point) -/
def Op8.term : Op8 → Int
  | .prod p a b => sgn p * v64 a.toNat * v64 b.toNat
  | .one p a => sgn p * v64 a.toNat * 64
/-- no NaR operand -/
def Op8.real : Op8 → Prop
  | .prod _ a b => a ≠ 128 ∧ b ≠ 128
  | .one _ a => a ≠ 128

/-- the generated model's accumulation step -/
def step8 (q : Int32) : Op8 → Rs.M Int32
  | .prod p a b => do let r ← crate.quire8.ops.fdp q a b p; pure r.2
  | .one p a => do let r ← crate.quire8.ops.fdp_one q a p; pure r.2
def run8 : Int32 → List Op8 → Rs.M Int32
  | q, [] => pure q
  | q, op :: r => do let q' ← step8 q op; run8 q' r

/-- the quire's range, open at the bottom because the most negative pattern is NaR -/
def InR (s : Int) : Prop := -2147483648 < s ∧ s < 2147483648
/-- every exact partial sum stays in range -/
def sumsIn (s : Int) : List Op8 → Prop
  | [] => True
  | op :: r => InR (s + op.term) ∧ sumsIn (s + op.term) r

theorem step8_ok (q : Int32) (op : Op8) (hq : InR q.toInt) (hr : op.real) (hs : InR (q.toInt + op.term)) :
    ∃ q', step8 q op = .ok q' ∧ q'.toInt = q.toInt + op.term := by
  cases op with
  | prod p a b =>
    obtain ⟨q', h, hv⟩ := q8_step q a b p hq.1 hr.1 hr.2 hs.1 hs.2
    exact ⟨q', by simp [step8, h], hv⟩
  | one p a =>
    obtain ⟨q', h, hv⟩ := q8_step_one q a p hq.1 hr hs.1 hs.2
    exact ⟨q', by simp [step8, h], hv⟩

/-- **C04, Q8E0, all histories**: from any in-range state, after ANY finite sequence of real-operand accumulations whose
exact partial sums stay in range, the model returns normally and the accumulator holds exactly the sum -/
theorem q8_history (ops : List Op8) : ∀ (q : Int32), InR q.toInt → (∀ op ∈ ops, op.real) → sumsIn q.toInt ops →
    ∃ q', run8 q ops = .ok q' ∧ q'.toInt = q.toInt + (ops.map Op8.term).sum := by
  induction ops with
  | nil => intro q _ _ _; exact ⟨q, rfl, by simp⟩
  | cons op r ih =>
    intro q hq hreal hs
    obtain ⟨q1, h1, v1⟩ := step8_ok q op hq (hreal op (by simp)) hs.1
    obtain ⟨q2, h2, v2⟩ := ih q1 (by rw [v1]; exact hs.1) (fun o ho => hreal o (by simp [ho])) (by rw [v1]; exact hs.2)
    refine ⟨q2, by simp [run8, h1, h2], ?_⟩
    rw [v2, v1]; simp [Int.add_assoc]

/-- from the cleared quire: the accumulator is exactly the sum of the terms -/
theorem q8_history_zero (ops : List Op8) (hreal : ∀ op ∈ ops, op.real) (hs : sumsIn 0 ops) :
    ∃ q', run8 crate.quire8.Q8E0.ZERO ops = .ok q' ∧ q'.toInt = (ops.map Op8.term).sum := by
  have hz : crate.quire8.Q8E0.ZERO.toInt = 0 := by decide
  obtain ⟨q', h, v⟩ := q8_history ops crate.quire8.Q8E0.ZERO (by rw [hz]; exact ⟨by omega, by omega⟩) hreal (by rw [hz]; exact hs)
  exact ⟨q', h, by rw [v, hz]; simp⟩

/-- NaR is sticky: once the accumulator is NaR it stays NaR whatever is accumulated -/
theorem q8_nar_sticky (ops : List Op8) : run8 crate.quire8.Q8E0.NAR ops = .ok crate.quire8.Q8E0.NAR := by
  induction ops with
  | nil => rfl
  | cons op r ih =>
    cases op with
    | prod p a b => simp [run8, step8, q8_step_nar _ a b p (Or.inl rfl), ih]
    | one p a => simp [run8, step8, q8_step_one_nar _ a p (Or.inl rfl), ih]
/-- a NaR operand makes the accumulator NaR -/
theorem q8_nar_operand (q : Int32) (op : Op8) (h : ¬ op.real) : step8 q op = .ok crate.quire8.Q8E0.NAR := by
  cases op with
  | prod p a b =>
    have : a = 128 ∨ b = 128 := by
      by_cases ha : a = 128
      · exact Or.inl ha
      · by_cases hb : b = 128
        · exact Or.inr hb
        · exact absurd ⟨ha, hb⟩ h
    simp [step8, q8_step_nar q a b p (Or.inr this)]
  | one p a =>
    have : a = 128 := by
      by_cases ha : a = 128
      · exact ha
      · exact absurd ha h
    simp [step8, q8_step_one_nar q a p (Or.inr this)]

/-- non-vacuity: a concrete three-step history with an exact cancellation meets every hypothesis -/
example : sumsIn 0 [Op8.prod true 0x40 0x50, Op8.one false 0x60, Op8.prod false 0x40 0x50] := by
  simp only [sumsIn, InR, Op8.term]
  native_decide

end C04
