import Gen.P8
import Spec
import Sweep
import Lemmas.Sweep
/-! # C01 — add, sub, mul, div are correctly rounded
P8E0: all 2^16 operand pairs, each of the four const methods (NAT); operator-trait spellings by FWD. -/
open Gen Sweep

namespace C01

theorem p8_add_sweep : all2 256 256 (chk8_2 crate.p8e0.ops.P8E0.add (Spec.add Spec.p8)) = true := by native_decide
theorem p8_sub_sweep : all2 256 256 (chk8_2 crate.p8e0.ops.P8E0.sub (Spec.sub Spec.p8)) = true := by native_decide
theorem p8_mul_sweep : all2 256 256 (chk8_2 crate.p8e0.ops.P8E0.mul (Spec.mul Spec.p8)) = true := by native_decide
theorem p8_div_sweep : all2 256 256 (chk8_2 crate.p8e0.ops.P8E0.div (Spec.div Spec.p8)) = true := by native_decide

/-- **C01, P8E0, all pairs**: the method returns normally (no trap in either build profile) the posit-rule
rounding of the exact sum; NaR iff an operand is NaR (that is what `Spec.add` says). -/
theorem p8_add (a b : Int8) : crate.p8e0.ops.P8E0.add a b = .ok (p8 (Spec.add Spec.p8 (bits8 a) (bits8 b))) :=
  forall8_2 _ _ p8_add_sweep a b
theorem p8_sub (a b : Int8) : crate.p8e0.ops.P8E0.sub a b = .ok (p8 (Spec.sub Spec.p8 (bits8 a) (bits8 b))) :=
  forall8_2 _ _ p8_sub_sweep a b
theorem p8_mul (a b : Int8) : crate.p8e0.ops.P8E0.mul a b = .ok (p8 (Spec.mul Spec.p8 (bits8 a) (bits8 b))) :=
  forall8_2 _ _ p8_mul_sweep a b
theorem p8_div (a b : Int8) : crate.p8e0.ops.P8E0.div a b = .ok (p8 (Spec.div Spec.p8 (bits8 a) (bits8 b))) :=
  forall8_2 _ _ p8_div_sweep a b

/-- operator-trait spellings forward to the const methods (FWD) -/
theorem p8_Add_eq (a b : Int8) : crate.p8e0.ops.P8E0.Add.add a b = crate.p8e0.ops.P8E0.add a b := by
  simp [crate.p8e0.ops.P8E0.Add.add]
theorem p8_Sub_eq (a b : Int8) : crate.p8e0.ops.P8E0.Sub.sub a b = crate.p8e0.ops.P8E0.sub a b := by
  simp [crate.p8e0.ops.P8E0.Sub.sub]
theorem p8_Mul_eq (a b : Int8) : crate.p8e0.ops.P8E0.Mul.mul a b = crate.p8e0.ops.P8E0.mul a b := by
  simp [crate.p8e0.ops.P8E0.Mul.mul]
theorem p8_Div_eq (a b : Int8) : crate.p8e0.ops.P8E0.Div.div a b = crate.p8e0.ops.P8E0.div a b := by
  simp [crate.p8e0.ops.P8E0.Div.div]

end C01
