import Gen.PX1
import SweepG
import Lemmas.Sweep
/-! # C13 — generic-width arithmetic: exhaustive theorems for small widths (the width is an argument of the model)

For PxE2<N> and EVERY operand tuple of N-bit patterns (left-aligned in 32 bits):
* `+`, `-`, `*`, `/` for every N in 2..=8 (all pairs), `sqrt` and `round` for every N in 2..=12 (all inputs),
* `mul_add`, `mul_sub`, `sub_product` for every N in 2..=5 (all triples),
the generated model returns normally the exact result rounded to an N-bit es=2 posit, left-aligned (so the low 32-N bits
are zero).  For PxE1<N> (es = 1): `+`, `-`, `*`, `/` for every N in 2..=8 (all pairs) and `round` for every N in 2..=12 — these
became theorems after the PxE1 rounding defects were repaired (known_findings.json `fixed:`); the PxE1 fused family is an open
finding.  Larger widths are covered by the correspondence + oracle run. -/
open Gen Sweep SweepG
namespace C13

theorem px2_add_small : widths 2 7 (px2Bin crate.pxe2.ops.PxE2.Add.add Spec.add) = true := by native_decide
theorem px2_sub_small : widths 2 7 (px2Bin crate.pxe2.ops.PxE2.Sub.sub Spec.sub) = true := by native_decide
theorem px2_mul_small : widths 2 7 (px2Bin crate.pxe2.ops.PxE2.Mul.mul Spec.mul) = true := by native_decide
theorem px2_div_small : widths 2 7 (px2Bin crate.pxe2.ops.PxE2.Div.div Spec.div) = true := by native_decide
theorem px2_sqrt_small : widths 2 11 (px2Un crate.pxe2.math.PxE2.sqrt Spec.sqrt) = true := by native_decide
theorem px2_round_small : widths 2 11 (px2Un crate.pxe2.math.PxE2.round (fun f a => Spec.roundI f 0 a)) = true := by native_decide
theorem px2_mul_add_small : widths 2 4 (px2Tern crate.pxe2.math.PxE2.mul_add (fun f a b c => Spec.fma f 0 a b c)) = true := by native_decide
theorem px2_mul_sub_small : widths 2 4 (px2Tern crate.pxe2.math.PxE2.mul_sub (fun f a b c => Spec.fma f 1 a b c)) = true := by native_decide
theorem px2_sub_product_small : widths 2 4 (px2Tern crate.pxe2.math.PxE2.sub_product (fun f c a b => Spec.fma f 2 a b c)) = true := by native_decide

/-- **C13, PxE2 add, N ≤ 8**: every pair of N-bit operands -/
theorem px2_add (n a b : Nat) (hn : 2 ≤ n) (hn' : n < 9) (ha : a < 2 ^ n) (hb : b < 2 ^ n) :
    crate.pxe2.ops.PxE2.Add.add (UInt32.ofNat n) (emb n a) (emb n b) = .ok (emb n (Spec.add (Spec.px2 n) a b)) := by
  have := all2_imp (allRange_imp px2_add_small n hn (by omega)) a ha b hb
  exact (isOk_iff _ _).mp this
theorem px2_sub (n a b : Nat) (hn : 2 ≤ n) (hn' : n < 9) (ha : a < 2 ^ n) (hb : b < 2 ^ n) :
    crate.pxe2.ops.PxE2.Sub.sub (UInt32.ofNat n) (emb n a) (emb n b) = .ok (emb n (Spec.sub (Spec.px2 n) a b)) := by
  have := all2_imp (allRange_imp px2_sub_small n hn (by omega)) a ha b hb
  exact (isOk_iff _ _).mp this
theorem px2_mul (n a b : Nat) (hn : 2 ≤ n) (hn' : n < 9) (ha : a < 2 ^ n) (hb : b < 2 ^ n) :
    crate.pxe2.ops.PxE2.Mul.mul (UInt32.ofNat n) (emb n a) (emb n b) = .ok (emb n (Spec.mul (Spec.px2 n) a b)) := by
  have := all2_imp (allRange_imp px2_mul_small n hn (by omega)) a ha b hb
  exact (isOk_iff _ _).mp this
theorem px2_div (n a b : Nat) (hn : 2 ≤ n) (hn' : n < 9) (ha : a < 2 ^ n) (hb : b < 2 ^ n) :
    crate.pxe2.ops.PxE2.Div.div (UInt32.ofNat n) (emb n a) (emb n b) = .ok (emb n (Spec.div (Spec.px2 n) a b)) := by
  have := all2_imp (allRange_imp px2_div_small n hn (by omega)) a ha b hb
  exact (isOk_iff _ _).mp this
theorem px2_sqrt (n a : Nat) (hn : 2 ≤ n) (hn' : n < 13) (ha : a < 2 ^ n) :
    crate.pxe2.math.PxE2.sqrt (UInt32.ofNat n) (emb n a) = .ok (emb n (Spec.sqrt (Spec.px2 n) a)) := by
  have := all1_imp (allRange_imp px2_sqrt_small n hn (by omega)) a ha
  exact (isOk_iff _ _).mp this
theorem px2_round (n a : Nat) (hn : 2 ≤ n) (hn' : n < 13) (ha : a < 2 ^ n) :
    crate.pxe2.math.PxE2.round (UInt32.ofNat n) (emb n a) = .ok (emb n (Spec.roundI (Spec.px2 n) 0 a)) := by
  have := all1_imp (allRange_imp px2_round_small n hn (by omega)) a ha
  exact (isOk_iff _ _).mp this
theorem px2_mul_add (n a b c : Nat) (hn : 2 ≤ n) (hn' : n < 6) (ha : a < 2 ^ n) (hb : b < 2 ^ n) (hc : c < 2 ^ n) :
    crate.pxe2.math.PxE2.mul_add (UInt32.ofNat n) (emb n a) (emb n b) (emb n c) = .ok (emb n (Spec.fma (Spec.px2 n) 0 a b c)) := by
  have := all3_imp (allRange_imp px2_mul_add_small n hn (by omega)) a ha b hb c hc
  exact (isOk_iff _ _).mp this

theorem px1_add_small : widths 2 7 (px1Bin crate.pxe1.ops.PxE1.Add.add Spec.add) = true := by native_decide
theorem px1_sub_small : widths 2 7 (px1Bin crate.pxe1.ops.PxE1.Sub.sub Spec.sub) = true := by native_decide
theorem px1_mul_small : widths 2 7 (px1Bin crate.pxe1.ops.PxE1.Mul.mul Spec.mul) = true := by native_decide
theorem px1_div_small : widths 2 7 (px1Bin crate.pxe1.ops.PxE1.Div.div Spec.div) = true := by native_decide
theorem px1_round_small : widths 2 11 (px1Un crate.pxe1.math.PxE1.round (fun f a => Spec.roundI f 0 a)) = true := by native_decide

/-- **C13, PxE1 add, N ≤ 8**: every pair of N-bit operands -/
theorem px1_add (n a b : Nat) (hn : 2 ≤ n) (hn' : n < 9) (ha : a < 2 ^ n) (hb : b < 2 ^ n) :
    crate.pxe1.ops.PxE1.Add.add (UInt32.ofNat n) (emb n a) (emb n b) = .ok (emb n (Spec.add (Spec.px1 n) a b)) := by
  have := all2_imp (allRange_imp px1_add_small n hn (by omega)) a ha b hb
  exact (isOk_iff _ _).mp this
theorem px1_sub (n a b : Nat) (hn : 2 ≤ n) (hn' : n < 9) (ha : a < 2 ^ n) (hb : b < 2 ^ n) :
    crate.pxe1.ops.PxE1.Sub.sub (UInt32.ofNat n) (emb n a) (emb n b) = .ok (emb n (Spec.sub (Spec.px1 n) a b)) := by
  have := all2_imp (allRange_imp px1_sub_small n hn (by omega)) a ha b hb
  exact (isOk_iff _ _).mp this
theorem px1_mul (n a b : Nat) (hn : 2 ≤ n) (hn' : n < 9) (ha : a < 2 ^ n) (hb : b < 2 ^ n) :
    crate.pxe1.ops.PxE1.Mul.mul (UInt32.ofNat n) (emb n a) (emb n b) = .ok (emb n (Spec.mul (Spec.px1 n) a b)) := by
  have := all2_imp (allRange_imp px1_mul_small n hn (by omega)) a ha b hb
  exact (isOk_iff _ _).mp this
theorem px1_div (n a b : Nat) (hn : 2 ≤ n) (hn' : n < 9) (ha : a < 2 ^ n) (hb : b < 2 ^ n) :
    crate.pxe1.ops.PxE1.Div.div (UInt32.ofNat n) (emb n a) (emb n b) = .ok (emb n (Spec.div (Spec.px1 n) a b)) := by
  have := all2_imp (allRange_imp px1_div_small n hn (by omega)) a ha b hb
  exact (isOk_iff _ _).mp this
theorem px1_round (n a : Nat) (hn : 2 ≤ n) (hn' : n < 13) (ha : a < 2 ^ n) :
    crate.pxe1.math.PxE1.round (UInt32.ofNat n) (emb n a) = .ok (emb n (Spec.roundI (Spec.px1 n) 0 a)) := by
  have := all1_imp (allRange_imp px1_round_small n hn (by omega)) a ha
  exact (isOk_iff _ _).mp this

end C13
