import SweepG
open Sweep SweepG
set_option maxRecDepth 100000
-- GENERATED (see Props/C18.lean)
theorem C18.p8_poly1_shard14 : allRange (14 * 16) 16 (fun x => all2 256 256 (fun c0 c1 => poly1Ok8 x c0 c1)) = true := by native_decide
