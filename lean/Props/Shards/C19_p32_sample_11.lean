import SweepG
open Sweep SweepG
set_option maxRecDepth 100000
-- GENERATED (see Props/C19.lean)
theorem C19.p32_sample_shard11 : allRangeTR (1073741824 + 11 * 8388608) 8388608 sample32SubOk = true := by native_decide
