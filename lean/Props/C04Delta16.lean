import Props.C04Hist16
import Props.C04Delta16Shards
import Lemmas.Sweep
import Mathlib.Tactic.Linarith
import Mathlib.Tactic.Ring
/-! # C04 — the Q16E1 product table `Delta16Prod` (thorough tier) and the unconditional Q16E1 history theorem

`q16Delta a b plus` (the accumulator-independent part of `quire16::ops::fdp`) is `q16Core` applied to the decoded magnitudes
(symbolic, `q16_delta_core`).  `q16Core` is checked against the exact product for ALL pairs of positive 15-bit magnitudes with
`b ≤ a` and `negate = false` (NAT, 2^29 evaluations in 128 shards); commutativity of the decoded combination and the final
negation are symbolic.  Per-operand facts (NAT, 2^15 / 2^16): the `separate_bits` table, sign symmetry of `v28`, the `v28` table. -/
open Gen Sweep SweepG
namespace C04

theorem sep_table_sweep : all1 32768 sepTableOk = true := by native_decide
theorem v28_neg_sweep : all1 65536 v28NegOk = true := by native_decide
theorem v28_table_sweep : all1 65536 v28TableOk = true := by native_decide

/-- `q16Delta` = sign handling + two decodes + `q16Core` -/
theorem q16_delta_core (a b : UInt16) (plus : Bool) :
    q16Delta a b plus = (do
      let sa ← crate.p16e1.P16E1.sign_ui a
      let sb ← crate.p16e1.P16E1.sign_ui b
      let a' := if sa then Rs.wrapping_neg_u16 a else a
      let b' := if sb then Rs.wrapping_neg_u16 b else b
      let p3 ← crate.p16e1.P16E1.separate_bits a'
      let p4 ← crate.p16e1.P16E1.separate_bits b'
      let K ← Rs.add_i8 p3.1 p4.1
      let E ← Rs.add_i8 p3.2.1 p4.2.1
      let F ← Rs.mul_u32 (Rs.cast_u16_u32 p3.2.2) (Rs.cast_u16_u32 p4.2.2)
      q16Core K E F (!((sa != sb) != plus))) := by
  unfold q16Delta q16Core
  simp only [crate.p16e1.P16E1.sign_ui, pure_bind, bind_assoc]
  generalize (a &&& crate.p16e1.P16E1.SIGN_MASK != 0) = sa
  generalize (b &&& crate.p16e1.P16E1.SIGN_MASK != 0) = sb
  cases sa <;> cases sb <;> rfl

theorem sign_sweep : all1 65536 signOk = true := by native_decide

/-! ## symmetry and negation of the core check (symbolic) -/
theorem add_i8_comm (x y : Int8) : Rs.add_i8 x y = Rs.add_i8 y x := by
  simp only [Rs.add_i8, Int.add_comm]
theorem mul_u32_comm (x y : UInt32) : Rs.mul_u32 x y = Rs.mul_u32 y x := by
  simp only [Rs.mul_u32, Int.mul_comm]

theorem coreOk_symm (neg : Bool) (a b : Nat) : q16CoreOk neg a b = q16CoreOk neg b a := by
  unfold q16CoreOk
  by_cases ha : a = 0 <;> by_cases hb : b = 0 <;> simp [ha, hb]
  rw [add_i8_comm (sepT a).1, add_i8_comm (sepT a).2.1, mul_u32_comm (Rs.cast_u16_u32 (sepT a).2.2), Int.mul_comm (v28T a)]

/-- the final negation of the core, as a post-processing step -/
theorem core_neg (K E : Int8) (F : UInt32) :
    q16Core K E F true = (do let d ← q16Core K E F false; pure (Rs.wrapping_neg_u128 d)) := by
  unfold q16Core
  simp only [Bool.false_eq_true, if_false, if_true, bind_assoc, pure_bind, if_bind16, bind_pure]

theorem sval_neg (d : Rs.U128) (h : sval128 d ≠ -170141183460469231731687303715884105728) :
    sval128 (Rs.wrapping_neg_u128 d) = - sval128 d := by
  unfold sval128 Rs.wrapping_neg_u128 Rs.ofInt_u128 Rs.toInt_u128 at *
  simp only [BitVec.toInt_ofInt]
  have hd := BitVec.toInt_eq_toNat_bmod d.bv
  have hl := d.bv.isLt
  simp only [Nat.reducePow] at *
  rw [Int.bmod_def] at hd ⊢
  omega
/-- the triangular product sweep (128 shards, `Props/Shards/C04_q16_core_*.lean`, 2^29 pairs) lifted to every pair of magnitudes -/
theorem core_all : ∀ a b : Nat, a < 32768 → b < 32768 → q16CoreOk false a b = true := by
  have tri : ∀ a b : Nat, a < 32768 → b ≤ a → q16CoreOk false a b = true := by
    intro a b ha hba
    have hk : a / 256 < 128 := by omega
    have h1 := allRangeTR_imp (q16_core_shards (a / 256) hk) a (by omega) (by omega)
    exact all1_imp h1 b (by omega)
  intro a b ha hb
  by_cases h : b ≤ a
  · exact tri a b ha h
  · rw [coreOk_symm]; exact tri b a hb (by omega)

theorem v28_bound_sweep : all1 65536 (fun x => decide (-72057594037927936 ≤ v28 x ∧ v28 x ≤ 72057594037927936)) = true := by native_decide
theorem v28_bound (x : Nat) (h : x < 65536) : -72057594037927936 ≤ v28 x ∧ v28 x ≤ 72057594037927936 := by
  have := all1_imp v28_bound_sweep x h
  simpa using this

theorem v28T_eq (x : Nat) (h : x < 65536) : v28T x = v28 x := by
  have := all1_imp v28_table_sweep x h
  simpa [v28TableOk] using this

/-- two positive magnitudes: decode + core gives the exact product (sign as requested) -/
theorem delta_mag (x y : UInt16) (hx0 : x.toNat ≠ 0) (hx : x.toNat < 32768) (hy0 : y.toNat ≠ 0) (hy : y.toNat < 32768) (neg : Bool) :
    ∃ d, (do let p3 ← crate.p16e1.P16E1.separate_bits x
             let p4 ← crate.p16e1.P16E1.separate_bits y
             let K ← Rs.add_i8 p3.1 p4.1
             let E ← Rs.add_i8 p3.2.1 p4.2.1
             let F ← Rs.mul_u32 (Rs.cast_u16_u32 p3.2.2) (Rs.cast_u16_u32 p4.2.2)
             q16Core K E F neg) = .ok d ∧
         sval128 d = (if neg then -(v28 x.toNat * v28 y.toNat) else v28 x.toNat * v28 y.toNat) := by
  have sx := all1_imp sep_table_sweep x.toNat hx
  have sy := all1_imp sep_table_sweep y.toNat hy
  unfold sepTableOk at sx sy
  simp only [UInt16.ofNat_toNat] at sx sy
  have ex : (x.toNat == 0) = false := by simpa using hx0
  have ey : (y.toNat == 0) = false := by simpa using hy0
  split at sx
  · next px hpx =>
    split at sy
    · next py hpy =>
      simp only [ex, ey, Bool.false_or, beq_iff_eq] at sx sy
      have hc := core_all x.toNat y.toNat hx hy
      unfold q16CoreOk at hc
      simp only [ex, ey, Bool.or_false, Bool.false_eq_true, if_false] at hc
      rw [← sx, ← sy] at hc
      simp only [hpx, hpy, ok_bind16]
      split at hc
      · next d0 hd0 =>
        simp only [Bool.false_eq_true, if_false, beq_iff_eq] at hc
        rw [v28T_eq _ (by omega), v28T_eq _ (by omega)] at hc
        cases neg
        · exact ⟨d0, hd0, by simpa using hc⟩
        · have bx := v28_bound x.toNat (by omega); have by_ := v28_bound y.toNat (by omega)
          have hprod : -5192296858534827628530496329220096 ≤ v28 x.toNat * v28 y.toNat ∧ v28 x.toNat * v28 y.toNat ≤ 5192296858534827628530496329220096 := by
            constructor <;> nlinarith [bx.1, bx.2, by_.1, by_.2, mul_nonneg (by linarith [bx.1] : (0:Int) ≤ v28 x.toNat + 72057594037927936) (by linarith [by_.2] : (0:Int) ≤ 72057594037927936 - v28 y.toNat), mul_nonneg (by linarith [bx.2] : (0:Int) ≤ 72057594037927936 - v28 x.toNat) (by linarith [by_.1] : (0:Int) ≤ v28 y.toNat + 72057594037927936), mul_nonneg (by linarith [bx.1] : (0:Int) ≤ v28 x.toNat + 72057594037927936) (by linarith [by_.1] : (0:Int) ≤ v28 y.toNat + 72057594037927936), mul_nonneg (by linarith [bx.2] : (0:Int) ≤ 72057594037927936 - v28 x.toNat) (by linarith [by_.2] : (0:Int) ≤ 72057594037927936 - v28 y.toNat)]
          refine ⟨Rs.wrapping_neg_u128 d0, ?_, ?_⟩
          · simp only [core_neg]
            have : ∀ (m : Rs.M Rs.U128), m = .ok d0 → (do let d ← m; pure (Rs.wrapping_neg_u128 d)) = .ok (Rs.wrapping_neg_u128 d0) := by
              intro m hm; rw [hm]; rfl
            rw [← this _ hd0]
            simp only [bind_assoc]
          · have hc' : sval128 d0 = v28 x.toNat * v28 y.toNat := by simpa using hc
            rw [sval_neg d0 (by rw [hc']; omega), hc']
            simp
      · cases hc
    · simp [ey] at sy
  · simp [ex] at sx

/-- magnitude pattern of an operand and how its `v28` relates to the operand's -/
theorem mag_facts (a : UInt16) (ha0 : a ≠ 0) (ha : a ≠ 32768) :
    ∃ (sa : Bool) (a' : UInt16), crate.p16e1.P16E1.sign_ui a = .ok sa ∧ a' = (if sa then Rs.wrapping_neg_u16 a else a) ∧
      a'.toNat ≠ 0 ∧ a'.toNat < 32768 ∧ v28 a.toNat = (if sa then -(v28 a'.toNat) else v28 a'.toNat) := by
  have hs := all1_imp sign_sweep a.toNat a.toNat_lt
  have hn := all1_imp v28_neg_sweep a.toNat a.toNat_lt
  unfold signOk at hs; unfold v28NegOk at hn
  simp only [UInt16.ofNat_toNat, Bool.and_eq_true, beq_iff_eq] at hs
  have an0 : a.toNat ≠ 0 := by intro h; apply ha0; exact UInt16.toNat_inj.mp (by simpa using h)
  have an1 : a.toNat ≠ 32768 := by intro h; apply ha; exact UInt16.toNat_inj.mp (by simpa using h)
  have hlt := a.toNat_lt
  obtain ⟨h1, h2⟩ := hs
  split at h1
  · next s hsg =>
    simp only [beq_iff_eq] at h1
    refine ⟨s, _, hsg, rfl, ?_⟩
    by_cases hge : a.toNat ≥ 32768
    · have : s = true := by rw [h1]; simpa using hge
      subst this
      simp only [if_true, h2]
      have e1 : (a.toNat == 0) = false := by simpa using an0
      have e2 : (a.toNat == 32768) = false := by simpa using an1
      simp only [e1, e2, Bool.false_or, beq_iff_eq] at hn
      refine ⟨by omega, by omega, ?_⟩
      rw [hn]; simp
    · have : s = false := by rw [h1]; simpa using hge
      subst this
      simp only [Bool.false_eq_true, if_false]
      exact ⟨an0, by omega, trivial⟩
  · simp at h1

/-- **the product table**: for every pair of real non-zero operands `δ` is the exact signed product -/
theorem delta16_prod : Delta16Prod := by
  intro plus a b ha0 ha hb0 hb
  obtain ⟨sa, a', hsa, ea', a0, al, va⟩ := mag_facts a ha0 ha
  obtain ⟨sb, b', hsb, eb', b0, bl, vb⟩ := mag_facts b hb0 hb
  obtain ⟨d, hd, hv⟩ := delta_mag a' b' a0 al b0 bl (!((sa != sb) != plus))
  refine ⟨d, ?_, ?_⟩
  · rw [q16_delta_core, hsa, hsb]
    simp only [ok_bind16, ← ea', ← eb']
    exact hd
  · rw [hv, va, vb]
    cases sa <;> cases sb <;> cases plus <;> simp [sgn] <;> ring

/-- **C04 for Q16E1, every history, unconditionally** (`q16_history` with the product table discharged) -/
theorem q16_history_all (ops : List Op16) (q : Rs.I128) (hq : InR16 q.bv.toInt) (hreal : ∀ op ∈ ops, op.real) (hs : sumsIn16 q.bv.toInt ops) :
    ∃ q', run16 q ops = .ok q' ∧ q'.bv.toInt = q.bv.toInt + (ops.map Op16.term).sum :=
  q16_history delta16_prod ops q hq hreal hs
end C04
