import SweepG
import Lemmas.Sweep
import Lemmas.Rs
/-! # C04 — Q16E1: the accumulation step from ANY state, and every finite history (GEN; the product table is a hypothesis here)

Same structure as `Props/C04Hist.lean` for Q8E0: `quire16::ops::fdp` / `fdp_one` are factored, for all 2^128 states symbolically,
into `q ↦ norm (q + δ)` where `δ` does not depend on the accumulator; the 128-bit wrap-around addition is exact while the sum
stays inside the quire range; induction over the list of operations gives the history theorem.
`δ` for a single posit is settled here by exhaustive sweeps (2 × 2^16, NAT).  `δ` for a PRODUCT needs all 2^32 operand pairs
(× 2 signs): that sweep is the thorough-tier module `Props/C04Delta16.lean`; in this file it is the explicit hypothesis
`Delta16Prod`, so every theorem below that mentions products reads "if the product table is right, then …" and the thorough
tier discharges the hypothesis. -/
open Gen Sweep SweepG
namespace C04

@[simp] theorem ok_bind16 {α β} (v : α) (f : α → Rs.M β) : ((Except.ok v : Rs.M α) >>= f) = f v := rfl
@[simp] theorem map_ok16 {α β} (v : α) (f : α → β) : (f <$> (Except.ok v : Rs.M α)) = Except.ok (f v) := rfl

/-! ## factoring out the accumulator -/
def NAR16 : Rs.I128 := crate.quire16.Q16E1.NAR
theorem nar16_val : NAR16.bv.toInt = -170141183460469231731687303715884105728 := by decide

theorem nar_bits16 (q : Rs.I128) :
    (Rs.cast_i128_u128 q == Rs.cast_i128_u128 crate.quire16.Q16E1.NAR) = (q == crate.quire16.Q16E1.NAR) := by
  apply Bool.eq_iff_iff.mpr
  simp only [beq_iff_eq]
  constructor
  · intro h
    have h' := congrArg (fun (x : Rs.U128) => x.bv) h
    simp only [Rs.cast_i128_u128, Rs.ofInt_u128, Rs.toInt_i128, BitVec.ofInt_toInt] at h'
    cases q; cases hN : crate.quire16.Q16E1.NAR
    simp_all
  · intro h; rw [h]

/-- the wrap-around addition and NaR-normalisation at the end of `fdp` -/
def q16Finish (q : Rs.I128) (d : Rs.U128) : Rs.I128 :=
  let z := Rs.cast_u128_i128 (Rs.wrapping_add_u128 d (Rs.cast_i128_u128 q))
  if z == crate.quire16.Q16E1.NAR then crate.quire16.Q16E1.ZERO else z

theorem ite_ok16 {α} (c : Prop) [Decidable c] (x y : α) :
    (if c then (pure ((), x) : Rs.M (Unit × α)) else pure ((), y)) = Except.ok ((), if c then x else y) := by
  split <;> rfl

theorem if_bind16 {α β} (c : Prop) [Decidable c] (x y : Rs.M α) (f : α → Rs.M β) :
    ((if c then x else y) >>= f) = if c then x >>= f else y >>= f := by split <;> rfl

theorem q16_fdp_factor (q : Rs.I128) (a b : UInt16) (plus : Bool) :
    crate.quire16.ops.fdp q a b plus =
      (if q == crate.quire16.Q16E1.NAR || a == 32768 || b == 32768 then .ok ((), crate.quire16.Q16E1.NAR)
       else if a == 0 || b == 0 then .ok ((), q)
       else do let d ← q16Delta a b plus; .ok ((), q16Finish q d)) := by
  unfold crate.quire16.ops.fdp q16Delta q16Finish
  simp only [crate.quire16.Q16E1.to_bits, crate.quire16.Q16E1.is_nar, crate.quire16.Q16E1.from_bits, crate.p16e1.P16E1.sign_ui,
    pure_bind, bind_assoc, nar_bits16]
  by_cases hq : q == crate.quire16.Q16E1.NAR <;> by_cases ha : a == 32768 <;> by_cases hb : b == 32768 <;>
    by_cases hz : (a == 0 || b == 0) <;> simp only [hq, ha, hb, hz, Bool.not_true, Bool.not_false, Bool.true_or, Bool.or_true,
      Bool.false_or, Bool.or_false, if_true, if_false, Bool.false_eq_true] <;> try rfl
  generalize hsa : (a &&& crate.p16e1.P16E1.SIGN_MASK != 0) = sa
  generalize hsb : (b &&& crate.p16e1.P16E1.SIGN_MASK != 0) = sb
  cases sa <;> cases sb <;> cases plus <;>
    simp only [if_true, if_false, Bool.false_eq_true, bind_assoc, pure_bind, bne_self_eq_false, Bool.not_false, Bool.not_true,
      Bool.true_bne, Bool.false_bne, Bool.bne_true, Bool.bne_false, Bool.not_not, ite_ok16, if_bind16, ok_bind16]

theorem q16_fdp_one_factor (q : Rs.I128) (a : UInt16) (plus : Bool) :
    crate.quire16.ops.fdp_one q a plus =
      (if q == crate.quire16.Q16E1.NAR || a == 32768 then .ok ((), crate.quire16.Q16E1.NAR)
       else if a == 0 then .ok ((), q)
       else do let d ← q16Delta1 a plus; .ok ((), q16Finish q d)) := by
  unfold crate.quire16.ops.fdp_one q16Delta1 q16Finish
  simp only [crate.quire16.Q16E1.to_bits, crate.quire16.Q16E1.is_nar, crate.quire16.Q16E1.from_bits, crate.p16e1.P16E1.sign_ui,
    pure_bind, bind_assoc, nar_bits16]
  by_cases hq : q == crate.quire16.Q16E1.NAR <;> by_cases ha : a == 32768 <;>
    by_cases hz : (a == 0) <;> simp only [hq, ha, hz, Bool.not_true, Bool.not_false, Bool.true_or, Bool.or_true,
      Bool.false_or, Bool.or_false, if_true, if_false, Bool.false_eq_true] <;> try rfl
  generalize hsa : (a &&& crate.p16e1.P16E1.SIGN_MASK != 0) = sa
  cases sa <;> cases plus <;>
    simp only [if_true, if_false, Bool.false_eq_true, bind_assoc, pure_bind, bne_self_eq_false, Bool.not_false, Bool.not_true,
      Bool.true_bne, Bool.false_bne, Bool.bne_true, Bool.bne_false, Bool.not_not, ite_ok16, if_bind16, ok_bind16]

/-! ## δ is the exact term -/
/-- the product table: for every pair of real non-zero operands, `δ` is `± v(a)·v(b)` in units of 2^-56 (thorough tier) -/
def Delta16Prod : Prop := ∀ (plus : Bool) (a b : UInt16), a ≠ 0 → a ≠ 32768 → b ≠ 0 → b ≠ 32768 →
    ∃ d, q16Delta a b plus = .ok d ∧ sval128 d = sgn plus * v28 a.toNat * v28 b.toNat

theorem q16_delta1_add_sweep : all1 65536 (q16Delta1Ok true) = true := by native_decide
theorem q16_delta1_sub_sweep : all1 65536 (q16Delta1Ok false) = true := by native_decide
theorem v28_exact_sweep : all1 65536 v28Exact = true := by native_decide

theorem q16_delta1 (plus : Bool) (a : UInt16) (ha : a ≠ 0) (ha' : a ≠ 32768) :
    ∃ d, q16Delta1 a plus = .ok d ∧ sval128 d = sgn plus * v28 a.toNat * 268435456 := by
  have h : q16Delta1Ok plus a.toNat = true := by
    cases plus
    · exact all1_imp q16_delta1_sub_sweep _ a.toNat_lt
    · exact all1_imp q16_delta1_add_sweep _ a.toNat_lt
  unfold q16Delta1Ok at h
  have e1 : (a.toNat == 0) = false := by simpa [← UInt16.toNat_inj] using ha
  have e2 : (a.toNat == 32768) = false := by simpa [← UInt16.toNat_inj] using ha'
  simp only [e1, e2, Bool.or_false, Bool.false_eq_true, if_false, UInt16.ofNat_toNat] at h
  split at h
  · next d hd =>
    refine ⟨d, hd, ?_⟩
    cases plus <;> simp [sgn] at h ⊢ <;> omega
  · cases h

/-! ## the wrap-around addition is exact inside the quire range -/
theorem toInt_quire_add16 (q : Rs.I128) (d : Rs.U128)
    (h1 : -170141183460469231731687303715884105728 ≤ q.bv.toInt + sval128 d)
    (h2 : q.bv.toInt + sval128 d < 170141183460469231731687303715884105728) :
    (Rs.cast_u128_i128 (Rs.wrapping_add_u128 d (Rs.cast_i128_u128 q))).bv.toInt = q.bv.toInt + sval128 d := by
  unfold Rs.cast_u128_i128 Rs.wrapping_add_u128 Rs.cast_i128_u128 Rs.ofInt_i128 Rs.toInt_u128 Rs.ofInt_u128 Rs.toInt_i128 sval128 at *
  simp only [BitVec.toInt_ofInt, BitVec.toNat_ofInt]
  have hq := BitVec.toInt_lt (x := q.bv); have hq' := BitVec.le_toInt (x := q.bv)
  have hd := BitVec.toInt_lt (x := d.bv); have hd' := BitVec.le_toInt (x := d.bv)
  have hdn := BitVec.toInt_eq_toNat_bmod d.bv
  have hdl := d.bv.isLt
  simp only [Nat.reducePow, Nat.reduceSub] at *
  rw [Int.bmod_def] at hdn ⊢
  omega

theorem ne_nar16_of_toInt {q : Rs.I128} (h : -170141183460469231731687303715884105728 < q.bv.toInt) :
    (q == crate.quire16.Q16E1.NAR) = false := by
  apply Bool.eq_false_iff.mpr
  intro hq
  have := nar16_val
  rw [beq_iff_eq.mp hq] at h
  unfold NAR16 at this
  omega

theorem q16Finish_toInt (q : Rs.I128) (d : Rs.U128)
    (h1 : -170141183460469231731687303715884105728 < q.bv.toInt + sval128 d)
    (h2 : q.bv.toInt + sval128 d < 170141183460469231731687303715884105728) :
    (q16Finish q d).bv.toInt = q.bv.toInt + sval128 d := by
  unfold q16Finish
  have hz := toInt_quire_add16 q d (by omega) h2
  simp only []
  rw [ne_nar16_of_toInt (by rw [hz]; exact h1)]
  simpa using hz

/-! ## one step from an arbitrary (non-NaR) state -/
theorem v28_zero : v28 0 = 0 := by native_decide

/-- the quire's range, open at the bottom because the most negative pattern is NaR -/
def InR16 (s : Int) : Prop := -170141183460469231731687303715884105728 < s ∧ s < 170141183460469231731687303715884105728

/-- **C04 step, Q16E1** (given the product table): from ANY non-NaR state, `q ±= (a, b)` adds exactly `±a·b` (scaled by 2^56) as
long as the exact result stays inside the quire range -/
theorem q16_step (hδ : Delta16Prod) (q : Rs.I128) (a b : UInt16) (plus : Bool) (hq : InR16 q.bv.toInt) (ha : a ≠ 32768) (hb : b ≠ 32768)
    (hs : InR16 (q.bv.toInt + sgn plus * v28 a.toNat * v28 b.toNat)) :
    ∃ q', crate.quire16.ops.fdp q a b plus = .ok ((), q') ∧ q'.bv.toInt = q.bv.toInt + sgn plus * v28 a.toNat * v28 b.toNat := by
  rw [q16_fdp_factor]
  have e1 : (a == 32768) = false := by simpa using ha
  have e2 : (b == 32768) = false := by simpa using hb
  simp only [ne_nar16_of_toInt hq.1, e1, e2, Bool.or_false, Bool.false_eq_true, if_false]
  by_cases hz : (a == 0 || b == 0) = true
  · simp only [hz, if_true]
    refine ⟨q, rfl, ?_⟩
    rcases Bool.or_eq_true_iff.mp hz with h | h
    · rw [beq_iff_eq.mp h]; simp [v28_zero]
    · rw [beq_iff_eq.mp h]; simp [v28_zero]
  · simp only [hz, if_false]
    have ha0 : a ≠ 0 := by intro h; apply hz; simp [h]
    have hb0 : b ≠ 0 := by intro h; apply hz; simp [h]
    obtain ⟨d, hd, hv⟩ := hδ plus a b ha0 ha hb0 hb
    rw [hd]
    refine ⟨_, rfl, ?_⟩
    rw [q16Finish_toInt q d (by rw [hv]; exact hs.1) (by rw [hv]; exact hs.2), hv]

theorem q16_step_nar (q : Rs.I128) (a b : UInt16) (plus : Bool) (h : q = crate.quire16.Q16E1.NAR ∨ a = 32768 ∨ b = 32768) :
    crate.quire16.ops.fdp q a b plus = .ok ((), crate.quire16.Q16E1.NAR) := by
  rw [q16_fdp_factor]
  have : (q == crate.quire16.Q16E1.NAR || a == 32768 || b == 32768) = true := by
    rcases h with h | h | h <;> simp [h]
  simp [this]

/-- **C04 step, Q16E1, single posit** (unconditional): `q ±= a` adds exactly `±a` -/
theorem q16_step_one (q : Rs.I128) (a : UInt16) (plus : Bool) (hq : InR16 q.bv.toInt) (ha : a ≠ 32768)
    (hs : InR16 (q.bv.toInt + sgn plus * v28 a.toNat * 268435456)) :
    ∃ q', crate.quire16.ops.fdp_one q a plus = .ok ((), q') ∧ q'.bv.toInt = q.bv.toInt + sgn plus * v28 a.toNat * 268435456 := by
  rw [q16_fdp_one_factor]
  have e1 : (a == 32768) = false := by simpa using ha
  simp only [ne_nar16_of_toInt hq.1, e1, Bool.or_false, Bool.false_eq_true, if_false]
  by_cases hz : (a == 0) = true
  · simp only [hz, if_true]
    refine ⟨q, rfl, ?_⟩
    rw [beq_iff_eq.mp hz]; simp [v28_zero]
  · simp only [hz, if_false]
    have ha0 : a ≠ 0 := by intro h; apply hz; simp [h]
    obtain ⟨d, hd, hv⟩ := q16_delta1 plus a ha0 ha
    rw [hd]
    refine ⟨_, rfl, ?_⟩
    rw [q16Finish_toInt q d (by rw [hv]; exact hs.1) (by rw [hv]; exact hs.2), hv]

theorem q16_step_one_nar (q : Rs.I128) (a : UInt16) (plus : Bool) (h : q = crate.quire16.Q16E1.NAR ∨ a = 32768) :
    crate.quire16.ops.fdp_one q a plus = .ok ((), crate.quire16.Q16E1.NAR) := by
  rw [q16_fdp_one_factor]
  have : (q == crate.quire16.Q16E1.NAR || a == 32768) = true := by
    rcases h with h | h <;> simp [h]
  simp [this]

/-! ## every finite history -/
inductive Op16
  | prod (plus : Bool) (a b : UInt16)
  | one (plus : Bool) (a : UInt16)
/-- the exact term an operation contributes, scaled by 2^56 (the quire's fixed point) -/
def Op16.term : Op16 → Int
  | .prod p a b => sgn p * v28 a.toNat * v28 b.toNat
  | .one p a => sgn p * v28 a.toNat * 268435456
def Op16.real : Op16 → Prop
  | .prod _ a b => a ≠ 32768 ∧ b ≠ 32768
  | .one _ a => a ≠ 32768
def step16 (q : Rs.I128) : Op16 → Rs.M Rs.I128
  | .prod p a b => do let r ← crate.quire16.ops.fdp q a b p; pure r.2
  | .one p a => do let r ← crate.quire16.ops.fdp_one q a p; pure r.2
def run16 : Rs.I128 → List Op16 → Rs.M Rs.I128
  | q, [] => pure q
  | q, op :: r => do let q' ← step16 q op; run16 q' r
def sumsIn16 (s : Int) : List Op16 → Prop
  | [] => True
  | op :: r => InR16 (s + op.term) ∧ sumsIn16 (s + op.term) r

theorem step16_ok (hδ : Delta16Prod) (q : Rs.I128) (op : Op16) (hq : InR16 q.bv.toInt) (hr : op.real) (hs : InR16 (q.bv.toInt + op.term)) :
    ∃ q', step16 q op = .ok q' ∧ q'.bv.toInt = q.bv.toInt + op.term := by
  cases op with
  | prod p a b =>
    obtain ⟨q', h, hv⟩ := q16_step hδ q a b p hq hr.1 hr.2 hs
    exact ⟨q', by simp [step16, h], hv⟩
  | one p a =>
    obtain ⟨q', h, hv⟩ := q16_step_one q a p hq hr hs
    exact ⟨q', by simp [step16, h], hv⟩

/-- **C04, Q16E1, all histories** (given the product table): from any in-range state, after ANY finite sequence of real-operand
accumulations whose exact partial sums stay in range, the model returns normally and the accumulator holds exactly the sum -/
theorem q16_history (hδ : Delta16Prod) (ops : List Op16) : ∀ (q : Rs.I128), InR16 q.bv.toInt → (∀ op ∈ ops, op.real) → sumsIn16 q.bv.toInt ops →
    ∃ q', run16 q ops = .ok q' ∧ q'.bv.toInt = q.bv.toInt + (ops.map Op16.term).sum := by
  induction ops with
  | nil => intro q _ _ _; exact ⟨q, rfl, by simp⟩
  | cons op r ih =>
    intro q hq hreal hs
    obtain ⟨q1, h1, v1⟩ := step16_ok hδ q op hq (hreal op (by simp)) hs.1
    obtain ⟨q2, h2, v2⟩ := ih q1 (by rw [v1]; exact hs.1) (fun o ho => hreal o (by simp [ho])) (by rw [v1]; exact hs.2)
    refine ⟨q2, by simp [run16, h1, h2], ?_⟩
    rw [v2, v1]; simp [Int.add_assoc]

/-- histories of single-posit accumulations need no hypothesis -/
def Op16.isOne : Op16 → Prop
  | .one _ _ => True
  | .prod _ _ _ => False
theorem q16_history_singles (ops : List Op16) : ∀ (q : Rs.I128), InR16 q.bv.toInt → (∀ op ∈ ops, op.real ∧ op.isOne) → sumsIn16 q.bv.toInt ops →
    ∃ q', run16 q ops = .ok q' ∧ q'.bv.toInt = q.bv.toInt + (ops.map Op16.term).sum := by
  induction ops with
  | nil => intro q _ _ _; exact ⟨q, rfl, by simp⟩
  | cons op r ih =>
    intro q hq hreal hs
    have hop := hreal op (by simp)
    obtain ⟨q1, h1, v1⟩ : ∃ q', step16 q op = .ok q' ∧ q'.bv.toInt = q.bv.toInt + op.term := by
      cases op with
      | prod p a b => exact absurd hop.2 (by simp [Op16.isOne])
      | one p a =>
        obtain ⟨q', h, hv⟩ := q16_step_one q a p hq hop.1 hs.1
        exact ⟨q', by simp [step16, h], hv⟩
    obtain ⟨q2, h2, v2⟩ := ih q1 (by rw [v1]; exact hs.1) (fun o ho => hreal o (by simp [ho])) (by rw [v1]; exact hs.2)
    refine ⟨q2, by simp [run16, h1, h2], ?_⟩
    rw [v2, v1]; simp [Int.add_assoc]

/-- NaR is sticky -/
theorem q16_nar_sticky (ops : List Op16) : run16 crate.quire16.Q16E1.NAR ops = .ok crate.quire16.Q16E1.NAR := by
  induction ops with
  | nil => rfl
  | cons op r ih =>
    cases op with
    | prod p a b => simp [run16, step16, q16_step_nar _ a b p (Or.inl rfl), ih]
    | one p a => simp [run16, step16, q16_step_one_nar _ a p (Or.inl rfl), ih]

/-- the hypotheses are satisfiable: a concrete history (1·1 + 2 − 0.5·4) inside the range -/
example : sumsIn16 0 [Op16.prod true 0x4000 0x4000, Op16.one true 0x5000, Op16.prod false 0x3000 0x6000] := by
  simp only [sumsIn16, Op16.term, InR16]
  have h1 : v28 16384 = 268435456 := by native_decide
  have h2 : v28 20480 = 536870912 := by native_decide
  have h3 : v28 12288 = 134217728 := by native_decide
  have h4 : v28 24576 = 1073741824 := by native_decide
  simp [h1, h2, h3, h4, sgn]
end C04
