import Props.Shards.C12_q8_to_posit_mid_0
import Props.Shards.C12_q8_to_posit_mid_1
import Props.Shards.C12_q8_to_posit_mid_2
import Props.Shards.C12_q8_to_posit_mid_3
import Props.Shards.C12_q8_to_posit_mid_4
import Props.Shards.C12_q8_to_posit_mid_5
import Props.Shards.C12_q8_to_posit_mid_6
import Props.Shards.C12_q8_to_posit_mid_7
import Props.Shards.C12_q8_to_posit_mid_8
import Props.Shards.C12_q8_to_posit_mid_9
import Props.Shards.C12_q8_to_posit_mid_10
import Props.Shards.C12_q8_to_posit_mid_11
import Props.Shards.C12_q8_to_posit_mid_12
import Props.Shards.C12_q8_to_posit_mid_13
import Props.Shards.C12_q8_to_posit_mid_14
import Props.Shards.C12_q8_to_posit_mid_15
import Props.Shards.C12_q8_to_posit_mid_16
import Props.Shards.C12_q8_to_posit_mid_17
import Props.Shards.C12_q8_to_posit_mid_18
import Props.Shards.C12_q8_to_posit_mid_19
import Props.Shards.C12_q8_to_posit_mid_20
import Props.Shards.C12_q8_to_posit_mid_21
import Props.Shards.C12_q8_to_posit_mid_22
import Props.Shards.C12_q8_to_posit_mid_23
import Props.Shards.C12_q8_to_posit_mid_24
import Props.Shards.C12_q8_to_posit_mid_25
import Props.Shards.C12_q8_to_posit_mid_26
import Props.Shards.C12_q8_to_posit_mid_27
import Props.Shards.C12_q8_to_posit_mid_28
import Props.Shards.C12_q8_to_posit_mid_29
import Props.Shards.C12_q8_to_posit_mid_30
import Props.Shards.C12_q8_to_posit_mid_31
import Props.Shards.C12_q8_to_posit_mid_32
import Props.Shards.C12_q8_to_posit_mid_33
import Props.Shards.C12_q8_to_posit_mid_34
import Props.Shards.C12_q8_to_posit_mid_35
import Props.Shards.C12_q8_to_posit_mid_36
import Props.Shards.C12_q8_to_posit_mid_37
import Props.Shards.C12_q8_to_posit_mid_38
import Props.Shards.C12_q8_to_posit_mid_39
import Props.Shards.C12_q8_to_posit_mid_40
import Props.Shards.C12_q8_to_posit_mid_41
import Props.Shards.C12_q8_to_posit_mid_42
import Props.Shards.C12_q8_to_posit_mid_43
import Props.Shards.C12_q8_to_posit_mid_44
import Props.Shards.C12_q8_to_posit_mid_45
import Props.Shards.C12_q8_to_posit_mid_46
import Props.Shards.C12_q8_to_posit_mid_47
import Props.Shards.C12_q8_to_posit_mid_48
import Props.Shards.C12_q8_to_posit_mid_49
import Props.Shards.C12_q8_to_posit_mid_50
import Props.Shards.C12_q8_to_posit_mid_51
import Props.Shards.C12_q8_to_posit_mid_52
import Props.Shards.C12_q8_to_posit_mid_53
import Props.Shards.C12_q8_to_posit_mid_54
import Props.Shards.C12_q8_to_posit_mid_55
import Props.Shards.C12_q8_to_posit_mid_56
import Props.Shards.C12_q8_to_posit_mid_57
import Props.Shards.C12_q8_to_posit_mid_58
import Props.Shards.C12_q8_to_posit_mid_59
import Props.Shards.C12_q8_to_posit_mid_60
import Props.Shards.C12_q8_to_posit_mid_61
import Props.Shards.C12_q8_to_posit_mid_62
import Props.Shards.C12_q8_to_posit_mid_63
import Props.Shards.C12_q8_to_posit_mid_64
import Props.Shards.C12_q8_to_posit_mid_65
import Props.Shards.C12_q8_to_posit_mid_66
import Props.Shards.C12_q8_to_posit_mid_67
import Props.Shards.C12_q8_to_posit_mid_68
import Props.Shards.C12_q8_to_posit_mid_69
import Props.Shards.C12_q8_to_posit_mid_70
import Props.Shards.C12_q8_to_posit_mid_71
import Props.Shards.C12_q8_to_posit_mid_72
import Props.Shards.C12_q8_to_posit_mid_73
import Props.Shards.C12_q8_to_posit_mid_74
import Props.Shards.C12_q8_to_posit_mid_75
import Props.Shards.C12_q8_to_posit_mid_76
import Props.Shards.C12_q8_to_posit_mid_77
import Props.Shards.C12_q8_to_posit_mid_78
import Props.Shards.C12_q8_to_posit_mid_79
import Props.Shards.C12_q8_to_posit_mid_80
import Props.Shards.C12_q8_to_posit_mid_81
import Props.Shards.C12_q8_to_posit_mid_82
import Props.Shards.C12_q8_to_posit_mid_83
import Props.Shards.C12_q8_to_posit_mid_84
import Props.Shards.C12_q8_to_posit_mid_85
import Props.Shards.C12_q8_to_posit_mid_86
import Props.Shards.C12_q8_to_posit_mid_87
import Props.Shards.C12_q8_to_posit_mid_88
import Props.Shards.C12_q8_to_posit_mid_89
import Props.Shards.C12_q8_to_posit_mid_90
import Props.Shards.C12_q8_to_posit_mid_91
import Props.Shards.C12_q8_to_posit_mid_92
import Props.Shards.C12_q8_to_posit_mid_93
import Props.Shards.C12_q8_to_posit_mid_94
import Props.Shards.C12_q8_to_posit_mid_95
import Props.Shards.C12_q8_to_posit_mid_96
import Props.Shards.C12_q8_to_posit_mid_97
import Props.Shards.C12_q8_to_posit_mid_98
import Props.Shards.C12_q8_to_posit_mid_99
import Props.Shards.C12_q8_to_posit_mid_100
import Props.Shards.C12_q8_to_posit_mid_101
import Props.Shards.C12_q8_to_posit_mid_102
import Props.Shards.C12_q8_to_posit_mid_103
import Props.Shards.C12_q8_to_posit_mid_104
import Props.Shards.C12_q8_to_posit_mid_105
import Props.Shards.C12_q8_to_posit_mid_106
import Props.Shards.C12_q8_to_posit_mid_107
import Props.Shards.C12_q8_to_posit_mid_108
import Props.Shards.C12_q8_to_posit_mid_109
import Props.Shards.C12_q8_to_posit_mid_110
import Props.Shards.C12_q8_to_posit_mid_111
import Props.Shards.C12_q8_to_posit_mid_112
import Props.Shards.C12_q8_to_posit_mid_113
import Props.Shards.C12_q8_to_posit_mid_114
import Props.Shards.C12_q8_to_posit_mid_115
import Props.Shards.C12_q8_to_posit_mid_116
import Props.Shards.C12_q8_to_posit_mid_117
import Props.Shards.C12_q8_to_posit_mid_118
import Props.Shards.C12_q8_to_posit_mid_119
import Props.Shards.C12_q8_to_posit_mid_120
import Props.Shards.C12_q8_to_posit_mid_121
import Props.Shards.C12_q8_to_posit_mid_122
import Props.Shards.C12_q8_to_posit_mid_123
import Props.Shards.C12_q8_to_posit_mid_124
import Props.Shards.C12_q8_to_posit_mid_125
import Props.Shards.C12_q8_to_posit_mid_126
import Props.Shards.C12_q8_to_posit_mid_127
import Props.Shards.C12_q8_to_posit_mid_128
import Props.Shards.C12_q8_to_posit_mid_129
import Props.Shards.C12_q8_to_posit_mid_130
import Props.Shards.C12_q8_to_posit_mid_131
import Props.Shards.C12_q8_to_posit_mid_132
import Props.Shards.C12_q8_to_posit_mid_133
import Props.Shards.C12_q8_to_posit_mid_134
import Props.Shards.C12_q8_to_posit_mid_135
import Props.Shards.C12_q8_to_posit_mid_136
import Props.Shards.C12_q8_to_posit_mid_137
import Props.Shards.C12_q8_to_posit_mid_138
import Props.Shards.C12_q8_to_posit_mid_139
import Props.Shards.C12_q8_to_posit_mid_140
import Props.Shards.C12_q8_to_posit_mid_141
import Props.Shards.C12_q8_to_posit_mid_142
import Props.Shards.C12_q8_to_posit_mid_143
import Props.Shards.C12_q8_to_posit_mid_144
import Props.Shards.C12_q8_to_posit_mid_145
import Props.Shards.C12_q8_to_posit_mid_146
import Props.Shards.C12_q8_to_posit_mid_147
import Props.Shards.C12_q8_to_posit_mid_148
import Props.Shards.C12_q8_to_posit_mid_149
import Props.Shards.C12_q8_to_posit_mid_150
import Props.Shards.C12_q8_to_posit_mid_151
import Props.Shards.C12_q8_to_posit_mid_152
import Props.Shards.C12_q8_to_posit_mid_153
import Props.Shards.C12_q8_to_posit_mid_154
import Props.Shards.C12_q8_to_posit_mid_155
import Props.Shards.C12_q8_to_posit_mid_156
import Props.Shards.C12_q8_to_posit_mid_157
import Props.Shards.C12_q8_to_posit_mid_158
import Props.Shards.C12_q8_to_posit_mid_159
import Props.Shards.C12_q8_to_posit_mid_160
import Props.Shards.C12_q8_to_posit_mid_161
import Props.Shards.C12_q8_to_posit_mid_162
import Props.Shards.C12_q8_to_posit_mid_163
import Props.Shards.C12_q8_to_posit_mid_164
import Props.Shards.C12_q8_to_posit_mid_165
import Props.Shards.C12_q8_to_posit_mid_166
import Props.Shards.C12_q8_to_posit_mid_167
import Props.Shards.C12_q8_to_posit_mid_168
import Props.Shards.C12_q8_to_posit_mid_169
import Props.Shards.C12_q8_to_posit_mid_170
import Props.Shards.C12_q8_to_posit_mid_171
import Props.Shards.C12_q8_to_posit_mid_172
import Props.Shards.C12_q8_to_posit_mid_173
import Props.Shards.C12_q8_to_posit_mid_174
import Props.Shards.C12_q8_to_posit_mid_175
import Props.Shards.C12_q8_to_posit_mid_176
import Props.Shards.C12_q8_to_posit_mid_177
import Props.Shards.C12_q8_to_posit_mid_178
import Props.Shards.C12_q8_to_posit_mid_179
import Props.Shards.C12_q8_to_posit_mid_180
import Props.Shards.C12_q8_to_posit_mid_181
import Props.Shards.C12_q8_to_posit_mid_182
import Props.Shards.C12_q8_to_posit_mid_183
import Props.Shards.C12_q8_to_posit_mid_184
import Props.Shards.C12_q8_to_posit_mid_185
import Props.Shards.C12_q8_to_posit_mid_186
import Props.Shards.C12_q8_to_posit_mid_187
import Props.Shards.C12_q8_to_posit_mid_188
import Props.Shards.C12_q8_to_posit_mid_189
import Props.Shards.C12_q8_to_posit_mid_190
import Props.Shards.C12_q8_to_posit_mid_191
import Props.Shards.C12_q8_to_posit_mid_192
import Props.Shards.C12_q8_to_posit_mid_193
import Props.Shards.C12_q8_to_posit_mid_194
import Props.Shards.C12_q8_to_posit_mid_195
import Props.Shards.C12_q8_to_posit_mid_196
import Props.Shards.C12_q8_to_posit_mid_197
import Props.Shards.C12_q8_to_posit_mid_198
import Props.Shards.C12_q8_to_posit_mid_199
import Props.Shards.C12_q8_to_posit_mid_200
import Props.Shards.C12_q8_to_posit_mid_201
import Props.Shards.C12_q8_to_posit_mid_202
import Props.Shards.C12_q8_to_posit_mid_203
import Props.Shards.C12_q8_to_posit_mid_204
import Props.Shards.C12_q8_to_posit_mid_205
import Props.Shards.C12_q8_to_posit_mid_206
import Props.Shards.C12_q8_to_posit_mid_207
import Props.Shards.C12_q8_to_posit_mid_208
import Props.Shards.C12_q8_to_posit_mid_209
import Props.Shards.C12_q8_to_posit_mid_210
import Props.Shards.C12_q8_to_posit_mid_211
import Props.Shards.C12_q8_to_posit_mid_212
import Props.Shards.C12_q8_to_posit_mid_213
import Props.Shards.C12_q8_to_posit_mid_214
import Props.Shards.C12_q8_to_posit_mid_215
import Props.Shards.C12_q8_to_posit_mid_216
import Props.Shards.C12_q8_to_posit_mid_217
import Props.Shards.C12_q8_to_posit_mid_218
import Props.Shards.C12_q8_to_posit_mid_219
import Props.Shards.C12_q8_to_posit_mid_220
import Props.Shards.C12_q8_to_posit_mid_221
import Props.Shards.C12_q8_to_posit_mid_222
import Props.Shards.C12_q8_to_posit_mid_223
import Props.Shards.C12_q8_to_posit_mid_224
import Props.Shards.C12_q8_to_posit_mid_225
import Props.Shards.C12_q8_to_posit_mid_226
import Props.Shards.C12_q8_to_posit_mid_227
import Props.Shards.C12_q8_to_posit_mid_228
import Props.Shards.C12_q8_to_posit_mid_229
import Props.Shards.C12_q8_to_posit_mid_230
import Props.Shards.C12_q8_to_posit_mid_231
import Props.Shards.C12_q8_to_posit_mid_232
import Props.Shards.C12_q8_to_posit_mid_233
import Props.Shards.C12_q8_to_posit_mid_234
import Props.Shards.C12_q8_to_posit_mid_235
import Props.Shards.C12_q8_to_posit_mid_236
import Props.Shards.C12_q8_to_posit_mid_237
import Props.Shards.C12_q8_to_posit_mid_238
import Props.Shards.C12_q8_to_posit_mid_239
/-! GENERATED by tools/mkq8.py: shard selection lemma for `Props/C12Q8All.lean` (thorough tier) -/
open Sweep SweepG
namespace C12

theorem q8_to_posit_shards_mid (k : Nat) (hk : k < 240) : allRangeTR (134217728 + k * 16777216) 16777216 q8ToPositOk = true :=
  match k, hk with
  | 0, _ => q8_to_posit_mid_shard0
  | 1, _ => q8_to_posit_mid_shard1
  | 2, _ => q8_to_posit_mid_shard2
  | 3, _ => q8_to_posit_mid_shard3
  | 4, _ => q8_to_posit_mid_shard4
  | 5, _ => q8_to_posit_mid_shard5
  | 6, _ => q8_to_posit_mid_shard6
  | 7, _ => q8_to_posit_mid_shard7
  | 8, _ => q8_to_posit_mid_shard8
  | 9, _ => q8_to_posit_mid_shard9
  | 10, _ => q8_to_posit_mid_shard10
  | 11, _ => q8_to_posit_mid_shard11
  | 12, _ => q8_to_posit_mid_shard12
  | 13, _ => q8_to_posit_mid_shard13
  | 14, _ => q8_to_posit_mid_shard14
  | 15, _ => q8_to_posit_mid_shard15
  | 16, _ => q8_to_posit_mid_shard16
  | 17, _ => q8_to_posit_mid_shard17
  | 18, _ => q8_to_posit_mid_shard18
  | 19, _ => q8_to_posit_mid_shard19
  | 20, _ => q8_to_posit_mid_shard20
  | 21, _ => q8_to_posit_mid_shard21
  | 22, _ => q8_to_posit_mid_shard22
  | 23, _ => q8_to_posit_mid_shard23
  | 24, _ => q8_to_posit_mid_shard24
  | 25, _ => q8_to_posit_mid_shard25
  | 26, _ => q8_to_posit_mid_shard26
  | 27, _ => q8_to_posit_mid_shard27
  | 28, _ => q8_to_posit_mid_shard28
  | 29, _ => q8_to_posit_mid_shard29
  | 30, _ => q8_to_posit_mid_shard30
  | 31, _ => q8_to_posit_mid_shard31
  | 32, _ => q8_to_posit_mid_shard32
  | 33, _ => q8_to_posit_mid_shard33
  | 34, _ => q8_to_posit_mid_shard34
  | 35, _ => q8_to_posit_mid_shard35
  | 36, _ => q8_to_posit_mid_shard36
  | 37, _ => q8_to_posit_mid_shard37
  | 38, _ => q8_to_posit_mid_shard38
  | 39, _ => q8_to_posit_mid_shard39
  | 40, _ => q8_to_posit_mid_shard40
  | 41, _ => q8_to_posit_mid_shard41
  | 42, _ => q8_to_posit_mid_shard42
  | 43, _ => q8_to_posit_mid_shard43
  | 44, _ => q8_to_posit_mid_shard44
  | 45, _ => q8_to_posit_mid_shard45
  | 46, _ => q8_to_posit_mid_shard46
  | 47, _ => q8_to_posit_mid_shard47
  | 48, _ => q8_to_posit_mid_shard48
  | 49, _ => q8_to_posit_mid_shard49
  | 50, _ => q8_to_posit_mid_shard50
  | 51, _ => q8_to_posit_mid_shard51
  | 52, _ => q8_to_posit_mid_shard52
  | 53, _ => q8_to_posit_mid_shard53
  | 54, _ => q8_to_posit_mid_shard54
  | 55, _ => q8_to_posit_mid_shard55
  | 56, _ => q8_to_posit_mid_shard56
  | 57, _ => q8_to_posit_mid_shard57
  | 58, _ => q8_to_posit_mid_shard58
  | 59, _ => q8_to_posit_mid_shard59
  | 60, _ => q8_to_posit_mid_shard60
  | 61, _ => q8_to_posit_mid_shard61
  | 62, _ => q8_to_posit_mid_shard62
  | 63, _ => q8_to_posit_mid_shard63
  | 64, _ => q8_to_posit_mid_shard64
  | 65, _ => q8_to_posit_mid_shard65
  | 66, _ => q8_to_posit_mid_shard66
  | 67, _ => q8_to_posit_mid_shard67
  | 68, _ => q8_to_posit_mid_shard68
  | 69, _ => q8_to_posit_mid_shard69
  | 70, _ => q8_to_posit_mid_shard70
  | 71, _ => q8_to_posit_mid_shard71
  | 72, _ => q8_to_posit_mid_shard72
  | 73, _ => q8_to_posit_mid_shard73
  | 74, _ => q8_to_posit_mid_shard74
  | 75, _ => q8_to_posit_mid_shard75
  | 76, _ => q8_to_posit_mid_shard76
  | 77, _ => q8_to_posit_mid_shard77
  | 78, _ => q8_to_posit_mid_shard78
  | 79, _ => q8_to_posit_mid_shard79
  | 80, _ => q8_to_posit_mid_shard80
  | 81, _ => q8_to_posit_mid_shard81
  | 82, _ => q8_to_posit_mid_shard82
  | 83, _ => q8_to_posit_mid_shard83
  | 84, _ => q8_to_posit_mid_shard84
  | 85, _ => q8_to_posit_mid_shard85
  | 86, _ => q8_to_posit_mid_shard86
  | 87, _ => q8_to_posit_mid_shard87
  | 88, _ => q8_to_posit_mid_shard88
  | 89, _ => q8_to_posit_mid_shard89
  | 90, _ => q8_to_posit_mid_shard90
  | 91, _ => q8_to_posit_mid_shard91
  | 92, _ => q8_to_posit_mid_shard92
  | 93, _ => q8_to_posit_mid_shard93
  | 94, _ => q8_to_posit_mid_shard94
  | 95, _ => q8_to_posit_mid_shard95
  | 96, _ => q8_to_posit_mid_shard96
  | 97, _ => q8_to_posit_mid_shard97
  | 98, _ => q8_to_posit_mid_shard98
  | 99, _ => q8_to_posit_mid_shard99
  | 100, _ => q8_to_posit_mid_shard100
  | 101, _ => q8_to_posit_mid_shard101
  | 102, _ => q8_to_posit_mid_shard102
  | 103, _ => q8_to_posit_mid_shard103
  | 104, _ => q8_to_posit_mid_shard104
  | 105, _ => q8_to_posit_mid_shard105
  | 106, _ => q8_to_posit_mid_shard106
  | 107, _ => q8_to_posit_mid_shard107
  | 108, _ => q8_to_posit_mid_shard108
  | 109, _ => q8_to_posit_mid_shard109
  | 110, _ => q8_to_posit_mid_shard110
  | 111, _ => q8_to_posit_mid_shard111
  | 112, _ => q8_to_posit_mid_shard112
  | 113, _ => q8_to_posit_mid_shard113
  | 114, _ => q8_to_posit_mid_shard114
  | 115, _ => q8_to_posit_mid_shard115
  | 116, _ => q8_to_posit_mid_shard116
  | 117, _ => q8_to_posit_mid_shard117
  | 118, _ => q8_to_posit_mid_shard118
  | 119, _ => q8_to_posit_mid_shard119
  | 120, _ => q8_to_posit_mid_shard120
  | 121, _ => q8_to_posit_mid_shard121
  | 122, _ => q8_to_posit_mid_shard122
  | 123, _ => q8_to_posit_mid_shard123
  | 124, _ => q8_to_posit_mid_shard124
  | 125, _ => q8_to_posit_mid_shard125
  | 126, _ => q8_to_posit_mid_shard126
  | 127, _ => q8_to_posit_mid_shard127
  | 128, _ => q8_to_posit_mid_shard128
  | 129, _ => q8_to_posit_mid_shard129
  | 130, _ => q8_to_posit_mid_shard130
  | 131, _ => q8_to_posit_mid_shard131
  | 132, _ => q8_to_posit_mid_shard132
  | 133, _ => q8_to_posit_mid_shard133
  | 134, _ => q8_to_posit_mid_shard134
  | 135, _ => q8_to_posit_mid_shard135
  | 136, _ => q8_to_posit_mid_shard136
  | 137, _ => q8_to_posit_mid_shard137
  | 138, _ => q8_to_posit_mid_shard138
  | 139, _ => q8_to_posit_mid_shard139
  | 140, _ => q8_to_posit_mid_shard140
  | 141, _ => q8_to_posit_mid_shard141
  | 142, _ => q8_to_posit_mid_shard142
  | 143, _ => q8_to_posit_mid_shard143
  | 144, _ => q8_to_posit_mid_shard144
  | 145, _ => q8_to_posit_mid_shard145
  | 146, _ => q8_to_posit_mid_shard146
  | 147, _ => q8_to_posit_mid_shard147
  | 148, _ => q8_to_posit_mid_shard148
  | 149, _ => q8_to_posit_mid_shard149
  | 150, _ => q8_to_posit_mid_shard150
  | 151, _ => q8_to_posit_mid_shard151
  | 152, _ => q8_to_posit_mid_shard152
  | 153, _ => q8_to_posit_mid_shard153
  | 154, _ => q8_to_posit_mid_shard154
  | 155, _ => q8_to_posit_mid_shard155
  | 156, _ => q8_to_posit_mid_shard156
  | 157, _ => q8_to_posit_mid_shard157
  | 158, _ => q8_to_posit_mid_shard158
  | 159, _ => q8_to_posit_mid_shard159
  | 160, _ => q8_to_posit_mid_shard160
  | 161, _ => q8_to_posit_mid_shard161
  | 162, _ => q8_to_posit_mid_shard162
  | 163, _ => q8_to_posit_mid_shard163
  | 164, _ => q8_to_posit_mid_shard164
  | 165, _ => q8_to_posit_mid_shard165
  | 166, _ => q8_to_posit_mid_shard166
  | 167, _ => q8_to_posit_mid_shard167
  | 168, _ => q8_to_posit_mid_shard168
  | 169, _ => q8_to_posit_mid_shard169
  | 170, _ => q8_to_posit_mid_shard170
  | 171, _ => q8_to_posit_mid_shard171
  | 172, _ => q8_to_posit_mid_shard172
  | 173, _ => q8_to_posit_mid_shard173
  | 174, _ => q8_to_posit_mid_shard174
  | 175, _ => q8_to_posit_mid_shard175
  | 176, _ => q8_to_posit_mid_shard176
  | 177, _ => q8_to_posit_mid_shard177
  | 178, _ => q8_to_posit_mid_shard178
  | 179, _ => q8_to_posit_mid_shard179
  | 180, _ => q8_to_posit_mid_shard180
  | 181, _ => q8_to_posit_mid_shard181
  | 182, _ => q8_to_posit_mid_shard182
  | 183, _ => q8_to_posit_mid_shard183
  | 184, _ => q8_to_posit_mid_shard184
  | 185, _ => q8_to_posit_mid_shard185
  | 186, _ => q8_to_posit_mid_shard186
  | 187, _ => q8_to_posit_mid_shard187
  | 188, _ => q8_to_posit_mid_shard188
  | 189, _ => q8_to_posit_mid_shard189
  | 190, _ => q8_to_posit_mid_shard190
  | 191, _ => q8_to_posit_mid_shard191
  | 192, _ => q8_to_posit_mid_shard192
  | 193, _ => q8_to_posit_mid_shard193
  | 194, _ => q8_to_posit_mid_shard194
  | 195, _ => q8_to_posit_mid_shard195
  | 196, _ => q8_to_posit_mid_shard196
  | 197, _ => q8_to_posit_mid_shard197
  | 198, _ => q8_to_posit_mid_shard198
  | 199, _ => q8_to_posit_mid_shard199
  | 200, _ => q8_to_posit_mid_shard200
  | 201, _ => q8_to_posit_mid_shard201
  | 202, _ => q8_to_posit_mid_shard202
  | 203, _ => q8_to_posit_mid_shard203
  | 204, _ => q8_to_posit_mid_shard204
  | 205, _ => q8_to_posit_mid_shard205
  | 206, _ => q8_to_posit_mid_shard206
  | 207, _ => q8_to_posit_mid_shard207
  | 208, _ => q8_to_posit_mid_shard208
  | 209, _ => q8_to_posit_mid_shard209
  | 210, _ => q8_to_posit_mid_shard210
  | 211, _ => q8_to_posit_mid_shard211
  | 212, _ => q8_to_posit_mid_shard212
  | 213, _ => q8_to_posit_mid_shard213
  | 214, _ => q8_to_posit_mid_shard214
  | 215, _ => q8_to_posit_mid_shard215
  | 216, _ => q8_to_posit_mid_shard216
  | 217, _ => q8_to_posit_mid_shard217
  | 218, _ => q8_to_posit_mid_shard218
  | 219, _ => q8_to_posit_mid_shard219
  | 220, _ => q8_to_posit_mid_shard220
  | 221, _ => q8_to_posit_mid_shard221
  | 222, _ => q8_to_posit_mid_shard222
  | 223, _ => q8_to_posit_mid_shard223
  | 224, _ => q8_to_posit_mid_shard224
  | 225, _ => q8_to_posit_mid_shard225
  | 226, _ => q8_to_posit_mid_shard226
  | 227, _ => q8_to_posit_mid_shard227
  | 228, _ => q8_to_posit_mid_shard228
  | 229, _ => q8_to_posit_mid_shard229
  | 230, _ => q8_to_posit_mid_shard230
  | 231, _ => q8_to_posit_mid_shard231
  | 232, _ => q8_to_posit_mid_shard232
  | 233, _ => q8_to_posit_mid_shard233
  | 234, _ => q8_to_posit_mid_shard234
  | 235, _ => q8_to_posit_mid_shard235
  | 236, _ => q8_to_posit_mid_shard236
  | 237, _ => q8_to_posit_mid_shard237
  | 238, _ => q8_to_posit_mid_shard238
  | 239, _ => q8_to_posit_mid_shard239
  | n + 240, h => absurd h (by omega)

end C12
