import Props.Shards.C12_q8_to_posit_0
import Props.Shards.C12_q8_to_posit_1
import Props.Shards.C12_q8_to_posit_2
import Props.Shards.C12_q8_to_posit_3
import Props.Shards.C12_q8_to_posit_4
import Props.Shards.C12_q8_to_posit_5
import Props.Shards.C12_q8_to_posit_6
import Props.Shards.C12_q8_to_posit_7
import Props.Shards.C12_q8_to_posit_8
import Props.Shards.C12_q8_to_posit_9
import Props.Shards.C12_q8_to_posit_10
import Props.Shards.C12_q8_to_posit_11
import Props.Shards.C12_q8_to_posit_12
import Props.Shards.C12_q8_to_posit_13
import Props.Shards.C12_q8_to_posit_14
import Props.Shards.C12_q8_to_posit_15
import Props.Shards.C12_q8_to_posit_16
import Props.Shards.C12_q8_to_posit_17
import Props.Shards.C12_q8_to_posit_18
import Props.Shards.C12_q8_to_posit_19
import Props.Shards.C12_q8_to_posit_20
import Props.Shards.C12_q8_to_posit_21
import Props.Shards.C12_q8_to_posit_22
import Props.Shards.C12_q8_to_posit_23
import Props.Shards.C12_q8_to_posit_24
import Props.Shards.C12_q8_to_posit_25
import Props.Shards.C12_q8_to_posit_26
import Props.Shards.C12_q8_to_posit_27
import Props.Shards.C12_q8_to_posit_28
import Props.Shards.C12_q8_to_posit_29
import Props.Shards.C12_q8_to_posit_30
import Props.Shards.C12_q8_to_posit_31
import Props.Shards.C12_q8_to_posit_32
import Props.Shards.C12_q8_to_posit_33
import Props.Shards.C12_q8_to_posit_34
import Props.Shards.C12_q8_to_posit_35
import Props.Shards.C12_q8_to_posit_36
import Props.Shards.C12_q8_to_posit_37
import Props.Shards.C12_q8_to_posit_38
import Props.Shards.C12_q8_to_posit_39
import Props.Shards.C12_q8_to_posit_40
import Props.Shards.C12_q8_to_posit_41
import Props.Shards.C12_q8_to_posit_42
import Props.Shards.C12_q8_to_posit_43
import Props.Shards.C12_q8_to_posit_44
import Props.Shards.C12_q8_to_posit_45
import Props.Shards.C12_q8_to_posit_46
import Props.Shards.C12_q8_to_posit_47
import Props.Shards.C12_q8_to_posit_48
import Props.Shards.C12_q8_to_posit_49
import Props.Shards.C12_q8_to_posit_50
import Props.Shards.C12_q8_to_posit_51
import Props.Shards.C12_q8_to_posit_52
import Props.Shards.C12_q8_to_posit_53
import Props.Shards.C12_q8_to_posit_54
import Props.Shards.C12_q8_to_posit_55
import Props.Shards.C12_q8_to_posit_56
import Props.Shards.C12_q8_to_posit_57
import Props.Shards.C12_q8_to_posit_58
import Props.Shards.C12_q8_to_posit_59
import Props.Shards.C12_q8_to_posit_60
import Props.Shards.C12_q8_to_posit_61
import Props.Shards.C12_q8_to_posit_62
import Props.Shards.C12_q8_to_posit_63
import Props.Shards.C12_q8_to_posit_64
import Props.Shards.C12_q8_to_posit_65
import Props.Shards.C12_q8_to_posit_66
import Props.Shards.C12_q8_to_posit_67
import Props.Shards.C12_q8_to_posit_68
import Props.Shards.C12_q8_to_posit_69
import Props.Shards.C12_q8_to_posit_70
import Props.Shards.C12_q8_to_posit_71
import Props.Shards.C12_q8_to_posit_72
import Props.Shards.C12_q8_to_posit_73
import Props.Shards.C12_q8_to_posit_74
import Props.Shards.C12_q8_to_posit_75
import Props.Shards.C12_q8_to_posit_76
import Props.Shards.C12_q8_to_posit_77
import Props.Shards.C12_q8_to_posit_78
import Props.Shards.C12_q8_to_posit_79
import Props.Shards.C12_q8_to_posit_80
import Props.Shards.C12_q8_to_posit_81
import Props.Shards.C12_q8_to_posit_82
import Props.Shards.C12_q8_to_posit_83
import Props.Shards.C12_q8_to_posit_84
import Props.Shards.C12_q8_to_posit_85
import Props.Shards.C12_q8_to_posit_86
import Props.Shards.C12_q8_to_posit_87
import Props.Shards.C12_q8_to_posit_88
import Props.Shards.C12_q8_to_posit_89
import Props.Shards.C12_q8_to_posit_90
import Props.Shards.C12_q8_to_posit_91
import Props.Shards.C12_q8_to_posit_92
import Props.Shards.C12_q8_to_posit_93
import Props.Shards.C12_q8_to_posit_94
import Props.Shards.C12_q8_to_posit_95
import Props.Shards.C12_q8_to_posit_96
import Props.Shards.C12_q8_to_posit_97
import Props.Shards.C12_q8_to_posit_98
import Props.Shards.C12_q8_to_posit_99
import Props.Shards.C12_q8_to_posit_100
import Props.Shards.C12_q8_to_posit_101
import Props.Shards.C12_q8_to_posit_102
import Props.Shards.C12_q8_to_posit_103
import Props.Shards.C12_q8_to_posit_104
import Props.Shards.C12_q8_to_posit_105
import Props.Shards.C12_q8_to_posit_106
import Props.Shards.C12_q8_to_posit_107
import Props.Shards.C12_q8_to_posit_108
import Props.Shards.C12_q8_to_posit_109
import Props.Shards.C12_q8_to_posit_110
import Props.Shards.C12_q8_to_posit_111
import Props.Shards.C12_q8_to_posit_112
import Props.Shards.C12_q8_to_posit_113
import Props.Shards.C12_q8_to_posit_114
import Props.Shards.C12_q8_to_posit_115
import Props.Shards.C12_q8_to_posit_116
import Props.Shards.C12_q8_to_posit_117
import Props.Shards.C12_q8_to_posit_118
import Props.Shards.C12_q8_to_posit_119
import Props.Shards.C12_q8_to_posit_120
import Props.Shards.C12_q8_to_posit_121
import Props.Shards.C12_q8_to_posit_122
import Props.Shards.C12_q8_to_posit_123
import Props.Shards.C12_q8_to_posit_124
import Props.Shards.C12_q8_to_posit_125
import Props.Shards.C12_q8_to_posit_126
import Props.Shards.C12_q8_to_posit_127
/-! GENERATED by tools/mkq8.py: shard selection lemmas for `Props/C12Q8.lean` -/
open Sweep SweepG
namespace C12

theorem q8_to_posit_shards_lo (k : Nat) (hk : k < 64) : allRangeTR (k * 2097152) 2097152 q8ToPositOk = true :=
  match k, hk with
  | 0, _ => q8_to_posit_shard0
  | 1, _ => q8_to_posit_shard1
  | 2, _ => q8_to_posit_shard2
  | 3, _ => q8_to_posit_shard3
  | 4, _ => q8_to_posit_shard4
  | 5, _ => q8_to_posit_shard5
  | 6, _ => q8_to_posit_shard6
  | 7, _ => q8_to_posit_shard7
  | 8, _ => q8_to_posit_shard8
  | 9, _ => q8_to_posit_shard9
  | 10, _ => q8_to_posit_shard10
  | 11, _ => q8_to_posit_shard11
  | 12, _ => q8_to_posit_shard12
  | 13, _ => q8_to_posit_shard13
  | 14, _ => q8_to_posit_shard14
  | 15, _ => q8_to_posit_shard15
  | 16, _ => q8_to_posit_shard16
  | 17, _ => q8_to_posit_shard17
  | 18, _ => q8_to_posit_shard18
  | 19, _ => q8_to_posit_shard19
  | 20, _ => q8_to_posit_shard20
  | 21, _ => q8_to_posit_shard21
  | 22, _ => q8_to_posit_shard22
  | 23, _ => q8_to_posit_shard23
  | 24, _ => q8_to_posit_shard24
  | 25, _ => q8_to_posit_shard25
  | 26, _ => q8_to_posit_shard26
  | 27, _ => q8_to_posit_shard27
  | 28, _ => q8_to_posit_shard28
  | 29, _ => q8_to_posit_shard29
  | 30, _ => q8_to_posit_shard30
  | 31, _ => q8_to_posit_shard31
  | 32, _ => q8_to_posit_shard32
  | 33, _ => q8_to_posit_shard33
  | 34, _ => q8_to_posit_shard34
  | 35, _ => q8_to_posit_shard35
  | 36, _ => q8_to_posit_shard36
  | 37, _ => q8_to_posit_shard37
  | 38, _ => q8_to_posit_shard38
  | 39, _ => q8_to_posit_shard39
  | 40, _ => q8_to_posit_shard40
  | 41, _ => q8_to_posit_shard41
  | 42, _ => q8_to_posit_shard42
  | 43, _ => q8_to_posit_shard43
  | 44, _ => q8_to_posit_shard44
  | 45, _ => q8_to_posit_shard45
  | 46, _ => q8_to_posit_shard46
  | 47, _ => q8_to_posit_shard47
  | 48, _ => q8_to_posit_shard48
  | 49, _ => q8_to_posit_shard49
  | 50, _ => q8_to_posit_shard50
  | 51, _ => q8_to_posit_shard51
  | 52, _ => q8_to_posit_shard52
  | 53, _ => q8_to_posit_shard53
  | 54, _ => q8_to_posit_shard54
  | 55, _ => q8_to_posit_shard55
  | 56, _ => q8_to_posit_shard56
  | 57, _ => q8_to_posit_shard57
  | 58, _ => q8_to_posit_shard58
  | 59, _ => q8_to_posit_shard59
  | 60, _ => q8_to_posit_shard60
  | 61, _ => q8_to_posit_shard61
  | 62, _ => q8_to_posit_shard62
  | 63, _ => q8_to_posit_shard63
  | n + 64, h => absurd h (by omega)

theorem q8_to_posit_shards_hi (k : Nat) (hk : k < 64) : allRangeTR (4160749568 + k * 2097152) 2097152 q8ToPositOk = true :=
  match k, hk with
  | 0, _ => q8_to_posit_shard64
  | 1, _ => q8_to_posit_shard65
  | 2, _ => q8_to_posit_shard66
  | 3, _ => q8_to_posit_shard67
  | 4, _ => q8_to_posit_shard68
  | 5, _ => q8_to_posit_shard69
  | 6, _ => q8_to_posit_shard70
  | 7, _ => q8_to_posit_shard71
  | 8, _ => q8_to_posit_shard72
  | 9, _ => q8_to_posit_shard73
  | 10, _ => q8_to_posit_shard74
  | 11, _ => q8_to_posit_shard75
  | 12, _ => q8_to_posit_shard76
  | 13, _ => q8_to_posit_shard77
  | 14, _ => q8_to_posit_shard78
  | 15, _ => q8_to_posit_shard79
  | 16, _ => q8_to_posit_shard80
  | 17, _ => q8_to_posit_shard81
  | 18, _ => q8_to_posit_shard82
  | 19, _ => q8_to_posit_shard83
  | 20, _ => q8_to_posit_shard84
  | 21, _ => q8_to_posit_shard85
  | 22, _ => q8_to_posit_shard86
  | 23, _ => q8_to_posit_shard87
  | 24, _ => q8_to_posit_shard88
  | 25, _ => q8_to_posit_shard89
  | 26, _ => q8_to_posit_shard90
  | 27, _ => q8_to_posit_shard91
  | 28, _ => q8_to_posit_shard92
  | 29, _ => q8_to_posit_shard93
  | 30, _ => q8_to_posit_shard94
  | 31, _ => q8_to_posit_shard95
  | 32, _ => q8_to_posit_shard96
  | 33, _ => q8_to_posit_shard97
  | 34, _ => q8_to_posit_shard98
  | 35, _ => q8_to_posit_shard99
  | 36, _ => q8_to_posit_shard100
  | 37, _ => q8_to_posit_shard101
  | 38, _ => q8_to_posit_shard102
  | 39, _ => q8_to_posit_shard103
  | 40, _ => q8_to_posit_shard104
  | 41, _ => q8_to_posit_shard105
  | 42, _ => q8_to_posit_shard106
  | 43, _ => q8_to_posit_shard107
  | 44, _ => q8_to_posit_shard108
  | 45, _ => q8_to_posit_shard109
  | 46, _ => q8_to_posit_shard110
  | 47, _ => q8_to_posit_shard111
  | 48, _ => q8_to_posit_shard112
  | 49, _ => q8_to_posit_shard113
  | 50, _ => q8_to_posit_shard114
  | 51, _ => q8_to_posit_shard115
  | 52, _ => q8_to_posit_shard116
  | 53, _ => q8_to_posit_shard117
  | 54, _ => q8_to_posit_shard118
  | 55, _ => q8_to_posit_shard119
  | 56, _ => q8_to_posit_shard120
  | 57, _ => q8_to_posit_shard121
  | 58, _ => q8_to_posit_shard122
  | 59, _ => q8_to_posit_shard123
  | 60, _ => q8_to_posit_shard124
  | 61, _ => q8_to_posit_shard125
  | 62, _ => q8_to_posit_shard126
  | 63, _ => q8_to_posit_shard127
  | n + 64, h => absurd h (by omega)

end C12
