import SweepG
import Lemmas.Sweep
/-! # C10 — the signed-integer order of bit patterns IS the order of the represented reals (P8E0, P16E1)

Successor sweep (NAT: every pair of consecutive patterns in the signed order has strictly increasing `Spec.toRat`) lifted by
induction and transitivity (GEN) to ALL pairs: for real `a`, `a < b` as signed integers implies `value a < value b`; NaR is the
smallest signed integer, so it sits below every real and equals only itself.  With `Props/C10Gen.lean` (every comparison of
the crate is the signed-integer comparison) this is C10's order statement for all 2^16 / 2^32 pairs of the two formats.
The 32-bit formats need a 2^31-step successor sweep (thorough tier, not built) or the closed-form proof. -/
open Sweep SweepG Spec
namespace C10

theorem p8_mono_sweep : allRange 1 254 (monoStep p8) = true := by native_decide
theorem p16_mono_sweep : allRange 1 65534 (monoStep p16) = true := by native_decide

theorem rat_lt_trans {a b c : Rat} (h1 : a < b) (h2 : b < c) : a < c := by
  rw [Rat.lt_iff_le_and_not_ge] at *
  refine ⟨Rat.le_trans h1.1 h2.1, fun h => h1.2 (Rat.le_trans h2.1 h)⟩

/-- value at position `k` of the signed order -/
def valAt (f : Fmt) (k : Nat) : Option Rat := toRat f (patOfKey f.n k)

theorem mono_of_steps (f : Fmt) (hi : Nat) (hstep : ∀ k, 1 ≤ k → k < hi → monoStep f k = true) :
    ∀ d i, 1 ≤ i → i + d + 1 ≤ hi → ∃ x y, valAt f i = some x ∧ valAt f (i + d + 1) = some y ∧ x < y := by
  intro d
  induction d with
  | zero =>
    intro i h1 h2
    have := hstep i h1 (by omega)
    unfold monoStep at this
    unfold valAt
    split at this
    · next x y hx hy => exact ⟨x, y, hx, hy, by simpa using this⟩
    · cases this
  | succ d ih =>
    intro i h1 h2
    obtain ⟨x, y, hx, hy, hxy⟩ := ih i h1 (by omega)
    have := hstep (i + d + 1) (by omega) (by omega)
    unfold monoStep at this
    unfold valAt at *
    split at this
    · next y' z hy' hz =>
      rw [hy] at hy'; cases hy'
      exact ⟨x, z, hx, by rw [show i + (d + 1) + 1 = i + d + 1 + 1 by omega]; exact hz, rat_lt_trans hxy (by simpa using this)⟩
    · cases this

/-- **C10, P8E0**: for every real `a` and every `b` with `a < b` in the signed reading, `value a < value b` -/
theorem p8_order (i j : Nat) (h1 : 1 ≤ i) (h2 : i < j) (h3 : j ≤ 255) :
    ∃ x y, valAt p8 i = some x ∧ valAt p8 j = some y ∧ x < y := by
  have := mono_of_steps p8 255 (fun k hk hk' => allRange_imp p8_mono_sweep k hk (by omega)) (j - i - 1) i h1 (by omega)
  rwa [show i + (j - i - 1) + 1 = j by omega] at this
theorem p16_order (i j : Nat) (h1 : 1 ≤ i) (h2 : i < j) (h3 : j ≤ 65535) :
    ∃ x y, valAt p16 i = some x ∧ valAt p16 j = some y ∧ x < y := by
  have := mono_of_steps p16 65535 (fun k hk hk' => allRange_imp p16_mono_sweep k hk (by omega)) (j - i - 1) i h1 (by omega)
  rwa [show i + (j - i - 1) + 1 = j by omega] at this

/-- position 0 of the signed order is NaR (no real value), and it is the only such pattern -/
theorem p8_nar_bottom : valAt p8 0 = none := by native_decide
theorem p16_nar_bottom : valAt p16 0 = none := by native_decide

/-- the statement for machine integers: the position of an `Int8` in the signed order is `a.toInt + 128` -/
theorem p8_key (a : Int8) : patOfKey 8 (a.toInt + 128).toNat = bits8 a := by
  have h1 := a.le_toInt; have h2 := a.toInt_lt
  have hb : bits8 a = (a.toInt % 256).toNat := by
    unfold bits8
    rw [← Int8.toNat_toBitVec]
    have h : a.toInt = a.toBitVec.toInt := rfl
    rw [h, BitVec.toInt_eq_toNat_bmod]
    have e : (Int.bmod (a.toBitVec.toNat : Int) (2^8)) % 256 = (a.toBitVec.toNat : Int) % 256 := Int.bmod_emod
    rw [e]
    have := a.toBitVec.isLt
    omega
  rw [hb]; unfold patOfKey
  have h1' : -128 ≤ a.toInt := by simpa using h1
  have h2' : a.toInt < 128 := by simpa using h2
  simp only [Nat.reducePow, Nat.reduceSub]
  omega

theorem p8_order_int (a b : Int8) (ha : a ≠ -128) (h : a < b) :
    ∃ x y, toRat p8 (bits8 a) = some x ∧ toRat p8 (bits8 b) = some y ∧ x < y := by
  have h1 := a.le_toInt; have h2 := b.toInt_lt
  have hlt : a.toInt < b.toInt := Int8.lt_iff_toInt_lt.mp h
  have hne : a.toInt ≠ -128 := by
    intro e; apply ha; apply Int8.toInt_inj.mp; rw [e]; rfl
  have h1' : -128 ≤ a.toInt := by simpa using h1
  have h2' : b.toInt < 128 := by simpa using h2
  have := p8_order (a.toInt + 128).toNat (b.toInt + 128).toNat (by omega) (by omega) (by omega)
  unfold valAt at this
  rwa [show p8.n = 8 from rfl, p8_key, p8_key] at this

/-- the same for `Int16` -/
theorem p16_key (a : Int16) : patOfKey 16 (a.toInt + 32768).toNat = bits16 a := by
  have h1 := a.le_toInt; have h2 := a.toInt_lt
  have hb : bits16 a = (a.toInt % 65536).toNat := by
    unfold bits16
    rw [← Int16.toNat_toBitVec]
    have h : a.toInt = a.toBitVec.toInt := rfl
    rw [h, BitVec.toInt_eq_toNat_bmod]
    have e : (Int.bmod (a.toBitVec.toNat : Int) (2^16)) % 65536 = (a.toBitVec.toNat : Int) % 65536 := Int.bmod_emod
    rw [e]
    have := a.toBitVec.isLt
    omega
  rw [hb]; unfold patOfKey
  have h1' : -32768 ≤ a.toInt := by simpa using h1
  have h2' : a.toInt < 32768 := by simpa using h2
  simp only [Nat.reducePow, Nat.reduceSub]
  omega

theorem p16_order_int (a b : Int16) (ha : a ≠ -32768) (h : a < b) :
    ∃ x y, toRat p16 (bits16 a) = some x ∧ toRat p16 (bits16 b) = some y ∧ x < y := by
  have h1 := a.le_toInt; have h2 := b.toInt_lt
  have hlt : a.toInt < b.toInt := Int16.lt_iff_toInt_lt.mp h
  have hne : a.toInt ≠ -32768 := by
    intro e; apply ha; apply Int16.toInt_inj.mp; rw [e]; rfl
  have h1' : -32768 ≤ a.toInt := by simpa using h1
  have h2' : b.toInt < 32768 := by simpa using h2
  have := p16_order (a.toInt + 32768).toNat (b.toInt + 32768).toNat (by omega) (by omega) (by omega)
  unfold valAt at this
  rwa [show p16.n = 16 from rfl, p16_key, p16_key] at this

end C10
