import Props.Shards.C18_p8_poly1_0
import Props.Shards.C18_p8_poly1_1
import Props.Shards.C18_p8_poly1_2
import Props.Shards.C18_p8_poly1_3
import Props.Shards.C18_p8_poly1_4
import Props.Shards.C18_p8_poly1_5
import Props.Shards.C18_p8_poly1_6
import Props.Shards.C18_p8_poly1_7
import Props.Shards.C18_p8_poly1_8
import Props.Shards.C18_p8_poly1_9
import Props.Shards.C18_p8_poly1_10
import Props.Shards.C18_p8_poly1_11
import Props.Shards.C18_p8_poly1_12
import Props.Shards.C18_p8_poly1_13
import Props.Shards.C18_p8_poly1_14
import Props.Shards.C18_p8_poly1_15
import Lemmas.Sweep
/-! # C18 — polynomial evaluation equals its fused-dot-product definition (theorems proved so far)

* `p8_poly1`: for EVERY P8E0 `x` and coefficient pair (all 2^24 triples, 16 NAT shards): `x.poly1(&[c0, c1])` returns normally the
  single posit rounding of the exact `c0·x + c1` (`Spec.poly`: exact rational sum, rounded once).
Higher degrees and the wider types are covered by the correspondence + oracle run against `Spec.poly` (exact rational fused
dot products composed in the documented stages); with `C04.q8_history` the P8E0 stages reduce to `to_posit` of the exact sum. -/
open Gen Sweep SweepG
namespace C18

theorem p8_poly1_shards (k : Nat) (hk : k < 16) : allRange (k * 16) 16 (fun x => all2 256 256 (fun c0 c1 => poly1Ok8 x c0 c1)) = true :=
  match k, hk with
  | 0, _ => p8_poly1_shard0
  | 1, _ => p8_poly1_shard1
  | 2, _ => p8_poly1_shard2
  | 3, _ => p8_poly1_shard3
  | 4, _ => p8_poly1_shard4
  | 5, _ => p8_poly1_shard5
  | 6, _ => p8_poly1_shard6
  | 7, _ => p8_poly1_shard7
  | 8, _ => p8_poly1_shard8
  | 9, _ => p8_poly1_shard9
  | 10, _ => p8_poly1_shard10
  | 11, _ => p8_poly1_shard11
  | 12, _ => p8_poly1_shard12
  | 13, _ => p8_poly1_shard13
  | 14, _ => p8_poly1_shard14
  | 15, _ => p8_poly1_shard15
  | n + 16, h => absurd h (by omega)

theorem p8_poly1 (x c0 c1 : Int8) :
    crate.polynom.Polynom.poly1.P8E0_P8E0 x #[c0, c1] = .ok (p8 (Spec.poly Spec.p8 (bits8 x) [bits8 c0, bits8 c1])) := by
  have hx := bits8_lt x
  have hk : bits8 x / 16 < 16 := by omega
  have h1 := allRange_imp (p8_poly1_shards _ hk) (bits8 x) (by omega) (by omega)
  have := all2_imp h1 (bits8 c0) (bits8_lt c0) (bits8 c1) (bits8_lt c1)
  simpa [poly1Ok8, isOk_iff, p8_bits8] using this

end C18
