import Props.Shards.C19_p32_sample_0
import Props.Shards.C19_p32_sample_1
import Props.Shards.C19_p32_sample_2
import Props.Shards.C19_p32_sample_3
import Props.Shards.C19_p32_sample_4
import Props.Shards.C19_p32_sample_5
import Props.Shards.C19_p32_sample_6
import Props.Shards.C19_p32_sample_7
import Props.Shards.C19_p32_sample_8
import Props.Shards.C19_p32_sample_9
import Props.Shards.C19_p32_sample_10
import Props.Shards.C19_p32_sample_11
import Props.Shards.C19_p32_sample_12
import Props.Shards.C19_p32_sample_13
import Props.Shards.C19_p32_sample_14
import Props.Shards.C19_p32_sample_15
import Lemmas.Sweep
import Lemmas.Rs
/-! # C19 — random sampling yields real posits in [0,1)

The `sample` bodies are translated with every `rng.gen_range(lo..hi)` replaced by an INPUT `rng_k` guarded by
`Rs.gen_range_*` (contract `lo ≤ rng_k < hi`, assumed of rand 0.8; outside it the model reports `Trap.assume`).
Theorems, for EVERY value the generator can draw:
* P8E0: all 256 values of the `u8` input: either a pattern in `[0, 0x40)` (a real posit in [0,1)) or outside the contract;
* P16E1: all 2^18 values: `sub_one` terminates and returns a pattern in `[0, 0x4000)`, or the draw is outside the contract;
* P32E2: all 2^27 first draws × all 4 second draws: a pattern in `[0, 0x4000_0000)` (16 shards for `from_bits(s) - ONE`,
  plus the bit-level fact that XOR with a 2-bit value cannot leave `[0, 2^30)`).
No call traps (no panic / overflow / non-termination in either build profile). -/
open Gen Sweep SweepG
namespace C19

theorem p8_sample_sweep : all1 256 sample8Ok = true := by native_decide
theorem p16_sample_sweep : all1 262144 sample16Ok = true := by native_decide

theorem p8_sample (r : UInt8) :
    (∃ p, crate.p8e0.rand.Distribution.sample r = .ok p ∧ bits8 p < 0x40) ∨
      crate.p8e0.rand.Distribution.sample r = .error .assume := by
  have := all1_imp p8_sample_sweep r.toNat r.toNat_lt
  unfold sample8Ok at this
  simp only [UInt8.ofNat_toNat] at this
  split at this
  · next p hp => left; exact ⟨p, hp, by simp at this; exact this.2⟩
  · next e he => right; simp at this; rw [he, this.2]
/-- the contract range is not empty: the theorem above is not vacuous -/
example : ∃ p, crate.p8e0.rand.Distribution.sample 17 = .ok p := ⟨_, rfl⟩

theorem p16_sample (r : UInt32) (h : r < 262144) :
    (∃ p, crate.p16e1.rand.Distribution.sample r = .ok p ∧ bits16 p < 0x4000) ∨
      crate.p16e1.rand.Distribution.sample r = .error .assume := by
  have hr : r.toNat < 262144 := by simpa [UInt32.lt_iff_toNat_lt] using h
  have := all1_imp p16_sample_sweep r.toNat hr
  unfold sample16Ok at this
  simp only [UInt32.ofNat_toNat] at this
  split at this
  · next p hp => left; exact ⟨p, hp, by simpa using this⟩
  · next e he => right; simp at this; rw [he, this]
example : (match crate.p16e1.rand.Distribution.sample 123456 with | .ok _ => true | .error _ => false) = true := by native_decide

theorem p32_sample_shards (k : Nat) (hk : k < 16) : allRangeTR (1073741824 + k * 8388608) 8388608 sample32SubOk = true :=
  match k, hk with
  | 0, _ => p32_sample_shard0
  | 1, _ => p32_sample_shard1
  | 2, _ => p32_sample_shard2
  | 3, _ => p32_sample_shard3
  | 4, _ => p32_sample_shard4
  | 5, _ => p32_sample_shard5
  | 6, _ => p32_sample_shard6
  | 7, _ => p32_sample_shard7
  | 8, _ => p32_sample_shard8
  | 9, _ => p32_sample_shard9
  | 10, _ => p32_sample_shard10
  | 11, _ => p32_sample_shard11
  | 12, _ => p32_sample_shard12
  | 13, _ => p32_sample_shard13
  | 14, _ => p32_sample_shard14
  | 15, _ => p32_sample_shard15
  | n + 16, h => absurd h (by omega)

theorem p32_sub_one (s : UInt32) (h1 : 1073741824 ≤ s) (h1' : s < 1207959552) : sample32SubOk s.toNat = true := by
  have a1 : 1073741824 ≤ s.toNat := by simpa [UInt32.le_iff_toNat_le] using h1
  have a2 : s.toNat < 1207959552 := by simpa [UInt32.lt_iff_toNat_lt] using h1'
  have hk : (s.toNat - 1073741824) / 8388608 < 16 := by omega
  exact allRangeTR_imp (p32_sample_shards _ hk) s.toNat (by omega) (by omega)

theorem xor_small (a b : UInt32) (ha : a.toNat < 1073741824) (hb : b.toNat < 4) : (a ^^^ b).toNat < 1073741824 := by
  rw [UInt32.toNat_xor]
  exact Nat.xor_lt_two_pow (n := 30) ha (by omega)

/-- **C19, P32E2**: for every pair of draws inside rand's contract the sample is a real posit in [0,1) -/
theorem p32_sample (r1 r2 : UInt32) (h1 : 1073741824 ≤ r1) (h1' : r1 < 1207959552) (h2 : r2 < 4) :
    ∃ p, crate.p32e2.rand.Distribution.sample r1 r2 = .ok p ∧ bits32 p < 0x40000000 := by
  have hs := p32_sub_one r1 h1 h1'
  unfold sample32SubOk at hs
  rw [UInt32.ofNat_toNat] at hs
  split at hs
  · cases hs
  · next y hf =>
    split at hs
    · cases hs
    · next x hx =>
      have hxb : bits32 x < 1073741824 := by simpa using hs
      unfold crate.p32e2.rand.Distribution.sample
      have h0 : (0 : UInt32) ≤ r2 := by simp [UInt32.le_iff_toNat_le]
      rw [Rs.gen_range_u32, Rs.gen_range_u32, if_pos ⟨h1, h1'⟩, if_pos ⟨h0, h2⟩]
      simp only [bind, Except.bind, pure, Except.pure, hf, hx]
      simp only [crate.p32e2.P32E2.to_bits, crate.p32e2.P32E2.from_bits, pure, Except.pure]
      refine ⟨_, rfl, ?_⟩
      rw [Rs.cast_u32_i32_eq, Rs.cast_i32_u32_eq]
      simp only [bits32, UInt32.toUInt32_toInt32] at hxb ⊢
      exact xor_small _ _ hxb (by simpa [UInt32.lt_iff_toNat_lt] using h2)

end C19
