import Props.Shards.C19_p32_sample_0
import Props.Shards.C19_p32_sample_1
import Props.Shards.C19_p32_sample_2
import Props.Shards.C19_p32_sample_3
import Props.Shards.C19_p32_sample_4
import Props.Shards.C19_p32_sample_5
import Props.Shards.C19_p32_sample_6
import Props.Shards.C19_p32_sample_7
import Props.Shards.C19_p32_sample_8
import Props.Shards.C19_p32_sample_9
import Props.Shards.C19_p32_sample_10
import Props.Shards.C19_p32_sample_11
import Props.Shards.C19_p32_sample_12
import Props.Shards.C19_p32_sample_13
import Props.Shards.C19_p32_sample_14
import Props.Shards.C19_p32_sample_15
import Lemmas.Sweep
/-! # C19 — random sampling yields real posits in [0,1)

The `sample` bodies are translated with every `rng.gen_range(lo..hi)` replaced by an INPUT `rng_k` guarded by
`Rs.gen_range_*` (contract `lo ≤ rng_k < hi`, assumed of rand 0.8).  Theorems, for EVERY value the generator can draw:
* P8E0: all 256 values of the `u8` input: in range ⇒ a pattern in `[0, 0x40)` (a real posit in [0,1)); out of range ⇒ `Trap.assume`;
* P16E1: all 2^18 draws ⇒ `sub_one` terminates and returns a pattern in `[0, 0x4000)`;
* P32E2: all 2^27 × 4 draws ⇒ a pattern in `[0, 0x4000_0000)` (16 shards).
None of these calls traps (no panic / overflow / non-termination in either build profile). -/
open Gen Sweep SweepG
namespace C19

theorem p8_sample_sweep : all1 256 sample8Ok = true := by native_decide
theorem p16_sample_sweep : all1 262144 sample16Ok = true := by native_decide

theorem p8_sample (r : UInt8) (h : r < 64) :
    ∃ p, crate.p8e0.rand.Distribution.sample r = .ok p ∧ bits8 p < 0x40 := by
  have := all1_imp p8_sample_sweep r.toNat r.toNat_lt
  unfold sample8Ok at this
  simp only [UInt8.ofNat_toNat] at this
  split at this
  · next p hp => exact ⟨p, hp, by simpa using (Bool.and_eq_true _ _ ▸ this).2⟩
  · next e he => simp [UInt8.lt_iff_toNat_lt] at h; simp at this; omega

theorem p16_sample (r : UInt32) (h : r < 262144) :
    ∃ p, crate.p16e1.rand.Distribution.sample r = .ok p ∧ bits16 p < 0x4000 := by
  have hr : r.toNat < 262144 := by simpa [UInt32.lt_iff_toNat_lt] using h
  have := all1_imp p16_sample_sweep r.toNat hr
  unfold sample16Ok at this
  simp only [UInt32.ofNat_toNat] at this
  split at this
  · next p hp => exact ⟨p, hp, by simpa using this⟩
  · cases this

theorem p32_sample_shards (k : Nat) (hk : k < 16) : allRangeTR (1073741824 + k * 8388608) 8388608 sample32Ok = true :=
  match k, hk with
  | 0, _ => p32_sample_shard0
  | 1, _ => p32_sample_shard1
  | 2, _ => p32_sample_shard2
  | 3, _ => p32_sample_shard3
  | 4, _ => p32_sample_shard4
  | 5, _ => p32_sample_shard5
  | 6, _ => p32_sample_shard6
  | 7, _ => p32_sample_shard7
  | 8, _ => p32_sample_shard8
  | 9, _ => p32_sample_shard9
  | 10, _ => p32_sample_shard10
  | 11, _ => p32_sample_shard11
  | 12, _ => p32_sample_shard12
  | 13, _ => p32_sample_shard13
  | 14, _ => p32_sample_shard14
  | 15, _ => p32_sample_shard15
  | n + 16, h => absurd h (by omega)

theorem p32_sample (r1 r2 : UInt32) (h1 : 1073741824 ≤ r1) (h1' : r1 < 1207959552) (h2 : r2 < 4) :
    ∃ p, crate.p32e2.rand.Distribution.sample r1 r2 = .ok p ∧ bits32 p < 0x40000000 := by
  have a1 : 1073741824 ≤ r1.toNat := by simpa [UInt32.le_iff_toNat_le] using h1
  have a2 : r1.toNat < 1207959552 := by simpa [UInt32.lt_iff_toNat_lt] using h1'
  have a3 : r2.toNat < 4 := by simpa [UInt32.lt_iff_toNat_lt] using h2
  have hk : (r1.toNat - 1073741824) / 8388608 < 16 := by omega
  have hs := allRangeTR_imp (p32_sample_shards _ hk) r1.toNat (by omega) (by omega)
  unfold sample32Ok at hs
  have := all1_imp hs r2.toNat a3
  simp only [UInt32.ofNat_toNat] at this
  split at this
  · next p hp => exact ⟨p, hp, by simpa using this⟩
  · cases this

end C19
