import Gen.PX1
import SweepG
import Lemmas.Sweep
/-! # C14 — generic-width conversions: exhaustive theorems for PxE2 (the width is an argument of the model)

* `PxE2<N>::to_p32e2` and `to_f64` are exact for every N in 2..=14 and every N-bit pattern;
* `PxE2<N>::from_p8e0` (all 256 sources) for every N in 2..=31 and `from_p16e1` (all 65536 sources) for every N in 2..=31
  return the source value rounded to an N-bit es=2 posit, left-aligned, zero and NaR preserved.
After the repairs of the second half of the build round (known_findings.json `fixed:`) also, as exhaustive sweeps (`… = true`
statements over the widths and ALL patterns): PxE2 and PxE1 `to_p8e0`, `to_p16e1` for every N in 2..=16, PxE1 `to_p32e2`, `to_f64`
for N in 2..=14, PxE1/PxE2 `from_p8e0` and `from_p16e1` for every N in 2..=32.
Integer/float sources, N > 16 targets: correspondence + oracle; open defects in known_findings.json. -/
open Gen Sweep SweepG
namespace C14

theorem px2_to_p32_small : widths 2 13 px2ToP32 = true := by native_decide
theorem px2_to_f64_small : widths 2 13 px2ToF64 = true := by native_decide
theorem px2_from_p8_all : widths 2 30 px2FromP8 = true := by native_decide
theorem px2_from_p16_all : widths 2 30 px2FromP16 = true := by native_decide

theorem px2_to_p32 (n a : Nat) (hn : 2 ≤ n) (hn' : n < 15) (ha : a < 2 ^ n) :
    crate.convert.PxE2.to_p32e2 (UInt32.ofNat n) (emb n a) = .ok (p32 (Spec.conv (Spec.px2 n) Spec.p32 a)) := by
  have := all1_imp (allRange_imp px2_to_p32_small n hn (by omega)) a ha
  exact (isOk_iff _ _).mp this
theorem px2_from_p8 (n : Nat) (x : Int8) (hn : 2 ≤ n) (hn' : n < 32) :
    crate.convert.PxE2.from_p8e0 (UInt32.ofNat n) x = .ok (emb n (Spec.conv Spec.p8 (Spec.px2 n) (bits8 x))) := by
  have := all1_imp (allRange_imp px2_from_p8_all n hn (by omega)) (bits8 x) (bits8_lt x)
  rw [p8_bits8] at this
  exact (isOk_iff _ _).mp this
theorem px2_from_p16 (n : Nat) (x : Int16) (hn : 2 ≤ n) (hn' : n < 32) :
    crate.convert.PxE2.from_p16e1 (UInt32.ofNat n) x = .ok (emb n (Spec.conv Spec.p16 (Spec.px2 n) (bits16 x))) := by
  have := all1_imp (allRange_imp px2_from_p16_all n hn (by omega)) (bits16 x) (bits16_lt x)
  rw [p16_bits16] at this
  exact (isOk_iff _ _).mp this

/-! sweeps added after the repairs (every width in the range, every pattern) -/
theorem px2_to_p8_small : widths 2 15 (pxTo8 Spec.px2 crate.convert.PxE2.to_p8e0) = true := by native_decide
theorem px2_to_p16_small : widths 2 15 (pxTo16 Spec.px2 crate.convert.PxE2.to_p16e1) = true := by native_decide
theorem px2_into_p8_small : widths 2 15 (pxTo8 Spec.px2 crate.convert.P8E0.From_PxE2.from) = true := by native_decide
theorem px2_into_p16_small : widths 2 15 (pxTo16 Spec.px2 crate.convert.P16E1.From_PxE2.from) = true := by native_decide
theorem px1_to_p8_small : widths 2 15 (pxTo8 Spec.px1 crate.convert.PxE1.to_p8e0) = true := by native_decide
theorem px1_to_p16_small : widths 2 15 (pxTo16 Spec.px1 crate.convert.PxE1.to_p16e1) = true := by native_decide
theorem px1_to_p32_small : widths 2 13 (pxTo32 Spec.px1 crate.convert.PxE1.to_p32e2) = true := by native_decide
theorem px1_to_f64_small : widths 2 13 (pxToF64 Spec.px1 crate.pxe1.convert.PxE1.to_f64) = true := by native_decide
theorem px2_from_p8_n32 : widths 32 1 (pxFrom8 Spec.px2 crate.convert.PxE2.from_p8e0) = true := by native_decide
theorem px2_from_p16_n32 : widths 32 1 (pxFrom16 Spec.px2 crate.convert.PxE2.from_p16e1) = true := by native_decide
theorem px1_from_p8_all : widths 2 31 (pxFrom8 Spec.px1 crate.convert.PxE1.from_p8e0) = true := by native_decide
theorem px1_from_p16_all : widths 2 31 (pxFrom16 Spec.px1 crate.convert.PxE1.from_p16e1) = true := by native_decide

/-! generic-to-generic (added with the `gg_*` operations): every source width 2..=13 (all patterns) into EVERY target width 2..=32 -/
theorem px2_from_px1_small : widths 2 12 (fun m => widths 2 31 (pxGG Spec.px1 Spec.px2 crate.convert.PxE2.from_pxe1 m)) = true := by native_decide
theorem px1_from_px2_small : widths 2 12 (fun m => widths 2 31 (pxGG Spec.px2 Spec.px1 crate.convert.PxE1.from_pxe2 m)) = true := by native_decide
theorem px2_from_px2_small : widths 2 12 (fun m => widths 2 31 (pxGG Spec.px2 Spec.px2 crate.convert.PxE2.from_pxe2 m)) = true := by native_decide
theorem px2_from_px1 (m n a : Nat) (hm : 2 ≤ m) (hm' : m < 14) (hn : 2 ≤ n) (hn' : n < 33) (ha : a < 2 ^ m) :
    crate.convert.PxE2.from_pxe1 (UInt32.ofNat n) (UInt32.ofNat m) (emb m a) = .ok (emb n (Spec.conv (Spec.px1 m) (Spec.px2 n) a)) := by
  have := all1_imp (allRange_imp (allRange_imp px2_from_px1_small m hm (by omega)) n hn (by omega)) a ha
  exact (isOk_iff _ _).mp this
theorem px1_from_px2 (m n a : Nat) (hm : 2 ≤ m) (hm' : m < 14) (hn : 2 ≤ n) (hn' : n < 33) (ha : a < 2 ^ m) :
    crate.convert.PxE1.from_pxe2 (UInt32.ofNat n) (UInt32.ofNat m) (emb m a) = .ok (emb n (Spec.conv (Spec.px2 m) (Spec.px1 n) a)) := by
  have := all1_imp (allRange_imp (allRange_imp px1_from_px2_small m hm (by omega)) n hn (by omega)) a ha
  exact (isOk_iff _ _).mp this
theorem px2_from_px2 (m n a : Nat) (hm : 2 ≤ m) (hm' : m < 14) (hn : 2 ≤ n) (hn' : n < 33) (ha : a < 2 ^ m) :
    crate.convert.PxE2.from_pxe2 (UInt32.ofNat n) (UInt32.ofNat m) (emb m a) = .ok (emb n (Spec.conv (Spec.px2 m) (Spec.px2 n) a)) := by
  have := all1_imp (allRange_imp (allRange_imp px2_from_px2_small m hm (by omega)) n hn (by omega)) a ha
  exact (isOk_iff _ _).mp this
/-- the `to_*` and `From` spellings are the same functions (every width pair, every pattern) -/
theorem px2_to_px1_eq (n m : UInt32) (x : Int32) : crate.convert.PxE2.to_pxe1 n m x = crate.convert.PxE1.from_pxe2 m n x := by
  simp [crate.convert.PxE2.to_pxe1]
theorem px1_to_px2_eq (n m : UInt32) (x : Int32) : crate.convert.PxE1.to_pxe2 n m x = crate.convert.PxE2.from_pxe1 m n x := by
  simp [crate.convert.PxE1.to_pxe2]
theorem px1_From_px2_eq (n m : UInt32) (x : Int32) : crate.convert.PxE1.From_PxE2.from m n x = crate.convert.PxE1.from_pxe2 n m x := by
  simp [crate.convert.PxE1.From_PxE2.from]
theorem px2_From_px1_eq (n m : UInt32) (x : Int32) : crate.convert.PxE2.From_PxE1.from m n x = crate.convert.PxE2.from_pxe1 n m x := by
  simp [crate.convert.PxE2.From_PxE1.from]

end C14
