import Props.C12Q8
import Props.C04
import Props.C01Fin
import Mathlib.Tactic.Ring
import Mathlib.Tactic.Linarith
import Mathlib.Algebra.Order.Field.Rat
/-! # C18 for P8E0: every quire stage of the polynomial evaluator is the single rounding of its exact fused dot product

`p8_poly1_all … p8_poly4_all`: for EVERY x and EVERY coefficient array (all bit patterns, NaR included — 2^24 … 2^48 inputs, proved
symbolically) `x.polyN(&c)` returns normally `Spec.poly`: the single posit rounding of the exact sum of c[i] times the individually
rounded powers of x.  `p8_poly1k … p8_poly4kt`: the same for every quire stage with ARBITRARY power arguments (the building blocks of
the higher degrees).
`fdp_run`: for EVERY list of at most 7 operand pairs (any bit patterns, NaR included), accumulating the products into a cleared
Q8E0 and converting back gives exactly `Spec.fdp` — the posit rounding of the exact rational sum (NaR if an operand is NaR).
Built from `C04.q8_history` (GEN, all histories), `C12.q8_to_posit_small` (NAT, 2^28 states) and per-operand facts (NAT, 256). -/
open Gen Sweep SweepG
namespace C18

abbrev T := UInt8 × UInt8
def opsOf (ts : List T) : List C04.Op8 := ts.map (fun t => C04.Op8.prod true t.1 t.2)
def termsOf (ts : List T) : List (Nat × Nat) := ts.map (fun t => (t.1.toNat, t.2.toNat))
def allReal (ts : List T) : Prop := ∀ t ∈ ts, t.1 ≠ 128 ∧ t.2 ≠ 128
def sumOf (ts : List T) : Int := ((opsOf ts).map C04.Op8.term).sum

/-! per-operand facts -/
theorem v64_bound_sweep : all1 256 (fun x => decide (-4096 ≤ v64 x ∧ v64 x ≤ 4096)) = true := by native_decide
theorem v64_rat_sweep : all1 256 (fun x => match Spec.toRat Spec.p8 x with
    | some q => q == (v64 x : Rat) / 64 && x != 128 | none => x == 128) = true := by native_decide

theorem v64_bound (a : UInt8) : -4096 ≤ v64 a.toNat ∧ v64 a.toNat ≤ 4096 := by
  have := all1_imp v64_bound_sweep a.toNat a.toNat_lt
  simpa using this

theorem toRat_real (a : UInt8) (h : a ≠ 128) : Spec.toRat Spec.p8 a.toNat = some ((v64 a.toNat : Rat) / 64) := by
  have := all1_imp v64_rat_sweep a.toNat a.toNat_lt
  split at this
  · next q hq =>
    simp only [Bool.and_eq_true, beq_iff_eq] at this
    rw [hq, this.1]
  · next hq =>
    exfalso; apply h
    have : a.toNat = 128 := by simpa using this
    exact UInt8.toNat_inj.mp (by simpa using this)

theorem toRat_nar (a : UInt8) (h : a = 128) : Spec.toRat Spec.p8 a.toNat = none := by
  subst h; decide

theorem term_bound (t : T) : -16777216 ≤ (C04.Op8.prod true t.1 t.2).term ∧ (C04.Op8.prod true t.1 t.2).term ≤ 16777216 := by
  have ha := v64_bound t.1; have hb := v64_bound t.2
  simp only [C04.Op8.term, sgn, if_true, Int.one_mul]
  obtain ⟨a1, a2⟩ := ha; obtain ⟨b1, b2⟩ := hb
  constructor
  · nlinarith [mul_nonneg (by linarith : (0:Int) ≤ v64 t.1.toNat + 4096) (by linarith : (0:Int) ≤ 4096 - v64 t.2.toNat),
      mul_nonneg (by linarith : (0:Int) ≤ 4096 - v64 t.1.toNat) (by linarith : (0:Int) ≤ v64 t.2.toNat + 4096)]
  · nlinarith [mul_nonneg (by linarith : (0:Int) ≤ v64 t.1.toNat + 4096) (by linarith : (0:Int) ≤ v64 t.2.toNat + 4096),
      mul_nonneg (by linarith : (0:Int) ≤ 4096 - v64 t.1.toNat) (by linarith : (0:Int) ≤ 4096 - v64 t.2.toNat)]

/-! the accumulator side -/
theorem sum_bound (ts : List T) : -(16777216 * (ts.length : Int)) ≤ sumOf ts ∧ sumOf ts ≤ 16777216 * (ts.length : Int) := by
  induction ts with
  | nil => simp [sumOf, opsOf]
  | cons t r ih =>
    have hb := term_bound t
    simp only [sumOf, opsOf, List.map_cons, List.sum_cons, List.length_cons] at *
    push_cast
    constructor <;> linarith [ih.1, ih.2, hb.1, hb.2]

theorem sumsIn_of_bound (ts : List T) : ∀ s : Int, -(2147483648 - 16777216 * (ts.length : Int)) < s → s < 2147483648 - 16777216 * (ts.length : Int) →
    C04.sumsIn s (opsOf ts) := by
  induction ts with
  | nil => intro s _ _; simp [opsOf, C04.sumsIn]
  | cons t r ih =>
    intro s h1 h2
    have hb := term_bound t
    simp only [opsOf, List.map_cons, C04.sumsIn, C04.InR, List.length_cons] at *
    push_cast at h1 h2
    refine ⟨⟨by linarith [hb.1, hb.2], by linarith [hb.1, hb.2]⟩, ih _ (by linarith [hb.1, hb.2]) (by linarith [hb.1, hb.2])⟩

theorem real_ops (ts : List T) (h : allReal ts) : ∀ op ∈ opsOf ts, op.real := by
  intro op hop
  simp only [opsOf, List.mem_map] at hop
  obtain ⟨t, ht, rfl⟩ := hop
  exact h t ht

/-- all operands real: `to_posit` after the accumulations is the exact sum rounded once -/
theorem run_real (ts : List T) (hlen : ts.length ≤ 7) (h : allReal ts) :
    (do let q ← C04.run8 crate.quire8.Q8E0.ZERO (opsOf ts); crate.quire8.convert.Q8E0.to_posit q) =
      .ok (p8 (Spec.round Spec.p8 (mkRat (sumOf ts) 4096))) := by
  have hl : (ts.length : Int) ≤ 7 := by exact_mod_cast hlen
  have hb := sum_bound ts
  apply C12.q8_history_rounds_partial (opsOf ts) (real_ops ts h)
  · exact sumsIn_of_bound ts 0 (by linarith) (by linarith)
  · show -134217728 ≤ sumOf ts; linarith [hb.1]
  · show sumOf ts < 134217728; linarith [hb.2]

/-- some operand NaR: the accumulator ends NaR -/
theorem run_nar (ts : List T) (h : ¬ allReal ts) (hlen : ts.length ≤ 7) : ∀ q : Int32,
    (q = crate.quire8.Q8E0.NAR ∨ (-(2147483648 - 16777216 * (ts.length : Int)) < q.toInt ∧ q.toInt < 2147483648 - 16777216 * (ts.length : Int))) →
    C04.run8 q (opsOf ts) = .ok crate.quire8.Q8E0.NAR := by
  induction ts with
  | nil => exact absurd (by intro t ht; cases ht) h
  | cons t r ih =>
    intro q hq
    rcases hq with hq | hq
    · rw [hq]; exact C04.q8_nar_sticky _
    · by_cases ht : t.1 ≠ 128 ∧ t.2 ≠ 128
      · -- real head: one exact step, then the tail contains the NaR
        have hr : ¬ allReal r := by
          intro hr; apply h; intro t' ht'
          rcases List.mem_cons.mp ht' with rfl | h'
          · exact ht
          · exact hr t' h'
        have hb := term_bound t
        simp only [List.length_cons] at hq hlen
        push_cast at hq
        have hstep := C04.step8_ok q (C04.Op8.prod true t.1 t.2) ⟨by linarith [hq.1], by linarith [hq.2]⟩ ht
          ⟨by linarith [hq.1, hb.1], by linarith [hq.2, hb.2]⟩
        obtain ⟨q1, h1, v1⟩ := hstep
        simp only [opsOf, List.map_cons, C04.run8, h1, C04.ok_bind]
        exact ih hr (by omega) q1 (Or.inr ⟨by rw [v1]; linarith [hq.1, hb.1], by rw [v1]; linarith [hq.2, hb.2]⟩)
      · have : C04.step8 q (C04.Op8.prod true t.1 t.2) = .ok crate.quire8.Q8E0.NAR := C04.q8_nar_operand q _ ht
        simp only [opsOf, List.map_cons, C04.run8, this, C04.ok_bind]
        exact C04.q8_nar_sticky _

/-! the specification side -/
def fstep (acc : Option Rat) (t : Nat × Nat) : Option Rat :=
  match acc, Spec.toRat Spec.p8 t.1, Spec.toRat Spec.p8 t.2 with
  | some s, some a, some b => some (s + a * b)
  | _, _, _ => none

theorem fdp_eq (terms : List (Nat × Nat)) :
    Spec.fdp Spec.p8 terms = (match terms.foldl fstep (some 0) with | some s => Spec.round Spec.p8 s | none => Spec.nar Spec.p8) := rfl

theorem fold_none (l : List (Nat × Nat)) : l.foldl fstep none = none := by
  induction l with
  | nil => rfl
  | cons t r ih => simp [List.foldl, fstep, ih]

theorem fold_real (ts : List T) (h : allReal ts) : ∀ s0 : Rat,
    (termsOf ts).foldl fstep (some s0) = some (s0 + (sumOf ts : Rat) / 4096) := by
  induction ts with
  | nil => intro s0; simp [termsOf, sumOf, opsOf]
  | cons t r ih =>
    intro s0
    have ht := h t (by simp)
    have hr : allReal r := fun t' ht' => h t' (by simp [ht'])
    simp only [termsOf, List.map_cons, List.foldl_cons, fstep, toRat_real t.1 ht.1, toRat_real t.2 ht.2]
    have := ih hr (s0 + (v64 t.1.toNat : Rat) / 64 * ((v64 t.2.toNat : Rat) / 64))
    simp only [termsOf] at this
    rw [this]
    simp only [sumOf, opsOf, List.map_cons, List.sum_cons, C04.Op8.term, sgn, if_true]
    push_cast
    congr 1
    ring

theorem fold_nar (ts : List T) (h : ¬ allReal ts) : ∀ acc, (termsOf ts).foldl fstep acc = none := by
  induction ts with
  | nil => exact absurd (by intro t ht; cases ht) h
  | cons t r ih =>
    intro acc
    by_cases ht : t.1 ≠ 128 ∧ t.2 ≠ 128
    · have hr : ¬ allReal r := by
        intro hr; apply h; intro t' ht'
        rcases List.mem_cons.mp ht' with rfl | h'
        · exact ht
        · exact hr t' h'
      simp only [termsOf, List.map_cons, List.foldl_cons]
      exact ih hr _
    · have : fstep acc (t.1.toNat, t.2.toNat) = none := by
        by_cases ha : t.1 = 128
        · cases acc <;> simp [fstep, toRat_nar t.1 ha]
        · have hb : t.2 = 128 := by
            by_contra hb; exact ht ⟨ha, hb⟩
          cases acc <;> simp [fstep, toRat_nar t.2 hb]
      simp only [termsOf, List.map_cons, List.foldl_cons, this]
      exact fold_none _

theorem to_posit_nar : crate.quire8.convert.Q8E0.to_posit crate.quire8.Q8E0.NAR = .ok (p8 128) := by decide

/-- **the fused dot product of P8E0, every operand list of length ≤ 7, NaR included** -/
theorem fdp_run (ts : List T) (hlen : ts.length ≤ 7) :
    (do let q ← C04.run8 crate.quire8.Q8E0.ZERO (opsOf ts); crate.quire8.convert.Q8E0.to_posit q) =
      .ok (p8 (Spec.fdp Spec.p8 (termsOf ts))) := by
  by_cases h : allReal ts
  · rw [run_real ts hlen h, fdp_eq, fold_real ts h 0]
    simp only [Rat.zero_add]
    congr 3
    rw [Rat.mkRat_eq_div]; norm_num
  · have hl : (ts.length : Int) ≤ 7 := by exact_mod_cast hlen
    have hz : crate.quire8.Q8E0.ZERO.toInt = 0 := by decide
    rw [run_nar ts h hlen crate.quire8.Q8E0.ZERO (Or.inr ⟨by rw [hz]; linarith, by rw [hz]; linarith⟩)]
    simp only [C04.ok_bind, to_posit_nar, fdp_eq, fold_nar ts h]
    rfl

/-! the generated stage functions -/
def ub (x : Int8) : UInt8 := x.toUInt8
theorem cast_i8_u8_eq (x : Int8) : Rs.cast_i8_u8 x = x.toUInt8 := by
  apply UInt8.toBitVec_inj.mp
  simp only [Rs.cast_i8_u8, Rs.ofInt_u8, Rs.toInt_i8, UInt8.toBitVec_ofNat', Int8.toBitVec_toUInt8]
  apply BitVec.eq_of_toNat_eq
  rw [BitVec.toNat_ofNat]
  have h : x.toInt = x.toBitVec.toInt := rfl
  rw [h, BitVec.toInt_eq_toNat_bmod]
  have e : (Int.bmod (x.toBitVec.toNat : Int) (2^8)) % 256 = (x.toBitVec.toNat : Int) % 256 := Int.bmod_emod
  rw [e]
  have := x.toBitVec.isLt
  omega
theorem one_bits : crate.p8e0.P8E0.ONE.toUInt8 = 64 := by decide
theorem p8_poly1k (x c0 c1 : Int8) :
    crate.polynom.poly.Poly.poly1k.P8E0_P8E0 x c0 c1 =
      .ok (p8 (Spec.fdp Spec.p8 [(64, (ub c1).toNat), ((ub x).toNat, (ub c0).toNat)])) := by
  have := fdp_run [((64 : UInt8), ub c1), (ub x, ub c0)] (by simp)
  have e64 : (64 : UInt8).toNat = 64 := rfl
  simp only [termsOf, List.map_cons, List.map_nil, e64] at this
  rw [← this]
  simp [crate.polynom.poly.Poly.poly1k.P8E0_P8E0, crate.quire8.Q8E0.Quire.init, crate.quire8.Q8E0.init, crate.p8e0.P8E0.One.one,
    C04.q8_add_assign_pair, crate.p8e0.P8E0.to_bits, crate.quire8.convert.P8E0.From_Q8E0.from, crate.quire8.convert.P8E0.From_refQ8E0.from,
    opsOf, C04.run8, C04.step8, ub, cast_i8_u8_eq, one_bits]

theorem p8_poly2k (x x2 top c0 c1 : Int8) :
    crate.polynom.poly.Poly.poly2k.P8E0_P8E0 x x2 top #[c0, c1] =
      .ok (p8 (Spec.fdp Spec.p8 [(64, (ub c1).toNat), ((ub x).toNat, (ub c0).toNat), ((ub x2).toNat, (ub top).toNat)])) := by
  have := fdp_run [((64 : UInt8), ub c1), (ub x, ub c0), (ub x2, ub top)] (by simp)
  have e64 : (64 : UInt8).toNat = 64 := rfl
  simp only [termsOf, List.map_cons, List.map_nil, e64] at this
  rw [← this]
  simp [crate.polynom.poly.Poly.poly2k.P8E0_P8E0, crate.quire8.Q8E0.Quire.init, crate.quire8.Q8E0.init, crate.p8e0.P8E0.One.one,
    C04.q8_add_assign_pair, crate.p8e0.P8E0.to_bits, crate.quire8.convert.P8E0.From_Q8E0.from, crate.quire8.convert.P8E0.From_refQ8E0.from,
    opsOf, C04.run8, C04.step8, ub, cast_i8_u8_eq, one_bits, Rs.index]

theorem p8_poly2kt (x x2 top c0 c1 : Int8) :
    crate.polynom.poly.Poly.poly2kt.P8E0_P8E0 x x2 top #[c0, c1] =
      .ok (p8 (Spec.fdp Spec.p8 [(64, (ub c1).toNat), ((ub x).toNat, (ub c0).toNat), ((ub x2).toNat, (ub top).toNat)])) := by
  have := fdp_run [((64 : UInt8), ub c1), (ub x, ub c0), (ub x2, ub top)] (by simp)
  have e64 : (64 : UInt8).toNat = 64 := rfl
  simp only [termsOf, List.map_cons, List.map_nil, e64] at this
  rw [← this]
  simp [crate.polynom.poly.Poly.poly2kt.P8E0_P8E0, crate.quire8.Q8E0.Quire.init, crate.quire8.Q8E0.init, crate.p8e0.P8E0.One.one,
    C04.q8_add_assign_pair, crate.p8e0.P8E0.to_bits, crate.quire8.convert.P8E0.From_Q8E0.from, crate.quire8.convert.P8E0.From_refQ8E0.from,
    opsOf, C04.run8, C04.step8, ub, cast_i8_u8_eq, one_bits, Rs.index]

theorem p8_poly3k (x x2 x3 top c0 c1 c2 : Int8) :
    crate.polynom.poly.Poly.poly3k.P8E0_P8E0 x x2 x3 top #[c0, c1, c2] =
      .ok (p8 (Spec.fdp Spec.p8 [(64, (ub c2).toNat), ((ub x).toNat, (ub c1).toNat), ((ub x2).toNat, (ub c0).toNat), ((ub x3).toNat, (ub top).toNat)])) := by
  have := fdp_run [((64 : UInt8), ub c2), (ub x, ub c1), (ub x2, ub c0), (ub x3, ub top)] (by simp)
  have e64 : (64 : UInt8).toNat = 64 := rfl
  simp only [termsOf, List.map_cons, List.map_nil, e64] at this
  rw [← this]
  simp [crate.polynom.poly.Poly.poly3k.P8E0_P8E0, crate.quire8.Q8E0.Quire.init, crate.quire8.Q8E0.init, crate.p8e0.P8E0.One.one,
    C04.q8_add_assign_pair, crate.p8e0.P8E0.to_bits, crate.quire8.convert.P8E0.From_Q8E0.from, crate.quire8.convert.P8E0.From_refQ8E0.from,
    opsOf, C04.run8, C04.step8, ub, cast_i8_u8_eq, one_bits, Rs.index]

theorem p8_poly3kt (x x2 x3 top c0 c1 c2 : Int8) :
    crate.polynom.poly.Poly.poly3kt.P8E0_P8E0 x x2 x3 top #[c0, c1, c2] =
      .ok (p8 (Spec.fdp Spec.p8 [(64, (ub c2).toNat), ((ub x).toNat, (ub c1).toNat), ((ub x2).toNat, (ub c0).toNat), ((ub x3).toNat, (ub top).toNat)])) := by
  have := fdp_run [((64 : UInt8), ub c2), (ub x, ub c1), (ub x2, ub c0), (ub x3, ub top)] (by simp)
  have e64 : (64 : UInt8).toNat = 64 := rfl
  simp only [termsOf, List.map_cons, List.map_nil, e64] at this
  rw [← this]
  simp [crate.polynom.poly.Poly.poly3kt.P8E0_P8E0, crate.quire8.Q8E0.Quire.init, crate.quire8.Q8E0.init, crate.p8e0.P8E0.One.one,
    C04.q8_add_assign_pair, crate.p8e0.P8E0.to_bits, crate.quire8.convert.P8E0.From_Q8E0.from, crate.quire8.convert.P8E0.From_refQ8E0.from,
    opsOf, C04.run8, C04.step8, ub, cast_i8_u8_eq, one_bits, Rs.index]

theorem p8_poly4k (x x2 x3 x4 top c0 c1 c2 c3 : Int8) :
    crate.polynom.poly.Poly.poly4k.P8E0_P8E0 x x2 x3 x4 top #[c0, c1, c2, c3] =
      .ok (p8 (Spec.fdp Spec.p8 [(64, (ub c3).toNat), ((ub x).toNat, (ub c2).toNat), ((ub x2).toNat, (ub c1).toNat), ((ub x3).toNat, (ub c0).toNat), ((ub x4).toNat, (ub top).toNat)])) := by
  have := fdp_run [((64 : UInt8), ub c3), (ub x, ub c2), (ub x2, ub c1), (ub x3, ub c0), (ub x4, ub top)] (by simp)
  have e64 : (64 : UInt8).toNat = 64 := rfl
  simp only [termsOf, List.map_cons, List.map_nil, e64] at this
  rw [← this]
  simp [crate.polynom.poly.Poly.poly4k.P8E0_P8E0, crate.quire8.Q8E0.Quire.init, crate.quire8.Q8E0.init, crate.p8e0.P8E0.One.one,
    C04.q8_add_assign_pair, crate.p8e0.P8E0.to_bits, crate.quire8.convert.P8E0.From_Q8E0.from, crate.quire8.convert.P8E0.From_refQ8E0.from,
    opsOf, C04.run8, C04.step8, ub, cast_i8_u8_eq, one_bits, Rs.index]

theorem p8_poly4kt (x x2 x3 x4 top c0 c1 c2 c3 : Int8) :
    crate.polynom.poly.Poly.poly4kt.P8E0_P8E0 x x2 x3 x4 top #[c0, c1, c2, c3] =
      .ok (p8 (Spec.fdp Spec.p8 [(64, (ub c3).toNat), ((ub x).toNat, (ub c2).toNat), ((ub x2).toNat, (ub c1).toNat), ((ub x3).toNat, (ub c0).toNat), ((ub x4).toNat, (ub top).toNat)])) := by
  have := fdp_run [((64 : UInt8), ub c3), (ub x, ub c2), (ub x2, ub c1), (ub x3, ub c0), (ub x4, ub top)] (by simp)
  have e64 : (64 : UInt8).toNat = 64 := rfl
  simp only [termsOf, List.map_cons, List.map_nil, e64] at this
  rw [← this]
  simp [crate.polynom.poly.Poly.poly4kt.P8E0_P8E0, crate.quire8.Q8E0.Quire.init, crate.quire8.Q8E0.init, crate.p8e0.P8E0.One.one,
    C04.q8_add_assign_pair, crate.p8e0.P8E0.to_bits, crate.quire8.convert.P8E0.From_Q8E0.from, crate.quire8.convert.P8E0.From_refQ8E0.from,
    opsOf, C04.run8, C04.step8, ub, cast_i8_u8_eq, one_bits, Rs.index]

/-! ## the public `polyN`, degrees 1–4, for EVERY x and EVERY coefficient array (all bit patterns, NaR included) -/
theorem bits_ub (x : Int8) : Bits.bits x = (ub x).toNat := rfl

theorem p8_poly1_all (x c0 c1 : Int8) :
    crate.polynom.Polynom.poly1.P8E0_P8E0 x #[c0, c1] =
      .ok (p8 (Spec.poly Spec.p8 (ub x).toNat [(ub c0).toNat, (ub c1).toNat])) := by
  simp only [crate.polynom.Polynom.poly1.P8E0_P8E0, Rs.index]
  simp [p8_poly1k]
  rfl

theorem p8_poly2_all (x c0 c1 c2 : Int8) :
    crate.polynom.Polynom.poly2.P8E0_P8E0 x #[c0, c1, c2] =
      .ok (p8 (Spec.poly Spec.p8 (ub x).toNat [(ub c0).toNat, (ub c1).toNat, (ub c2).toNat])) := by
  obtain ⟨x2, h2, b2⟩ := C01.p8_mul x x
  have e : (#[c0, c1, c2] : Array Int8).extract 1 3 = #[c1, c2] := by simp
  simp only [crate.polynom.Polynom.poly2.P8E0_P8E0, h2, Rs.index, Rs.slice_from]
  simp [e, p8_poly2kt]
  simp only [bits_ub] at b2
  simp only [Spec.poly, Spec.polyK, Spec.stage, Spec.pows, Spec.one, List.length_cons, List.length_nil]
  have e64 : 2 ^ (Spec.p8.n - 2) = 64 := rfl
  simp [b2, e64]

theorem idx4_0 (a b c d : Int8) : Rs.index #[a,b,c,d] (0 : UInt64) = .ok a := rfl
theorem sl4 (a b c d : Int8) : Rs.slice_from #[a,b,c,d] (Rs.RangeIter.mk (1 : UInt64) 0) = .ok #[b,c,d] := by
  simp [Rs.slice_from]
theorem idx5_0 (a b c d e : Int8) : Rs.index #[a,b,c,d,e] (0 : UInt64) = .ok a := rfl
theorem sl5 (a b c d e : Int8) : Rs.slice_from #[a,b,c,d,e] (Rs.RangeIter.mk (1 : UInt64) 0) = .ok #[b,c,d,e] := by
  simp [Rs.slice_from]
theorem e64 : 2 ^ (Spec.p8.n - 2) = 64 := rfl

theorem p8_poly3_all (x c0 c1 c2 c3 : Int8) :
    crate.polynom.Polynom.poly3.P8E0_P8E0 x #[c0, c1, c2, c3] =
      .ok (p8 (Spec.poly Spec.p8 (ub x).toNat [(ub c0).toNat, (ub c1).toNat, (ub c2).toNat, (ub c3).toNat])) := by
  obtain ⟨x2, h2, b2⟩ := C01.p8_mul x x
  obtain ⟨x3, h3, b3⟩ := C01.p8_mul x2 x
  simp only [bits_ub] at b2 b3
  simp only [crate.polynom.Polynom.poly3.P8E0_P8E0, h2, h3, idx4_0, sl4, C04.ok_bind, p8_poly3kt]
  simp only [Spec.poly, Spec.polyK, Spec.stage, Spec.pows, Spec.one, List.length_cons, List.length_nil, e64, b3, b2]
  rfl

theorem p8_poly4_all (x c0 c1 c2 c3 c4 : Int8) :
    crate.polynom.Polynom.poly4.P8E0_P8E0 x #[c0, c1, c2, c3, c4] =
      .ok (p8 (Spec.poly Spec.p8 (ub x).toNat [(ub c0).toNat, (ub c1).toNat, (ub c2).toNat, (ub c3).toNat, (ub c4).toNat])) := by
  obtain ⟨x2, h2, b2⟩ := C01.p8_mul x x
  obtain ⟨x3, h3, b3⟩ := C01.p8_mul x2 x
  obtain ⟨x4, h4, b4⟩ := C01.p8_mul x2 x2
  simp only [bits_ub] at b2 b3 b4
  simp only [crate.polynom.Polynom.poly4.P8E0_P8E0, h2, h3, h4, idx5_0, sl5, C04.ok_bind, p8_poly4kt]
  simp only [Spec.poly, Spec.polyK, Spec.stage, Spec.pows, Spec.one, List.length_cons, List.length_nil, e64, b4, b3, b2]
  rfl
end C18
