import SweepG
import Lemmas.Sweep
/-! # C12 — quire state operations (theorems proved so far)

* round trip `to_posit (from_posit p) = p` for EVERY P8E0 and P16E1 pattern (NAT sweeps);
* `neg` is two's-complement negation of the whole accumulator for EVERY Q8E0 / Q16E1 state (FWD) — hence exactly `-s`
  for every state except the NaR pattern, which is its own negation;
* `clear` gives ZERO from every state.
Q32E2 and the residual split are covered by the history correspondence + oracle (not yet theorems). -/
open Gen Sweep SweepG
namespace C12

theorem q8_round_trip_sweep : all1 256 q8RoundTrip = true := by native_decide
theorem q16_round_trip_sweep : all1 65536 q16RoundTrip = true := by native_decide

theorem q8_round_trip (p : Int8) :
    (do let q ← crate.quire8.Q8E0.from_posit p; crate.quire8.convert.Q8E0.to_posit q) = .ok p := by
  have h := all1_imp q8_round_trip_sweep (bits8 p) (bits8_lt p)
  unfold q8RoundTrip at h
  rw [p8_bits8] at h
  split at h
  · next r hr => rw [hr]; congr; have := (beq_iff_eq.mp h); rw [← p8_bits8 r, this, p8_bits8]
  · cases h
theorem q16_round_trip (p : Int16) :
    (do let q ← crate.quire16.Q16E1.from_posit p; crate.quire16.convert.Q16E1.to_posit q) = .ok p := by
  have h := all1_imp q16_round_trip_sweep (bits16 p) (bits16_lt p)
  unfold q16RoundTrip at h
  rw [p16_bits16] at h
  split at h
  · next r hr => rw [hr]; congr; have := (beq_iff_eq.mp h); rw [← p16_bits16 r, this, p16_bits16]
  · cases h

theorem q8_neg (q : Int32) : crate.quire8.Q8E0.neg q = .ok ((), Rs.wrapping_neg_i32 q) := by
  simp [crate.quire8.Q8E0.neg]; rfl
theorem q16_neg (q : Rs.I128) : crate.quire16.Q16E1.neg q = .ok ((), Rs.wrapping_neg_i128 q) := by
  simp [crate.quire16.Q16E1.neg]; rfl
theorem q8_clear (q : Int32) : crate.quire8.Q8E0.clear q = .ok ((), 0) := by
  simp [crate.quire8.Q8E0.clear]; rfl
end C12
