import Props.C12Q8Split
import Props.C12Q8All
/-! # C12 for Q8E0, thorough tier: the residual split for (almost) every state

With `C12.q8_to_posit_all` (all 2^32 states) the bound of `Props/C12Q8Split.lean` is only what the exact subtraction `q -= p1` needs:
for every Q8E0 state with |q| ≤ 2 146 000 000 (99.93 % of the 2^32 states; the rest could leave the quire's range when the rounded
posit is subtracted) `into_two_posits` / `into_three_posits` return p1 = round(s), p2 = round(s - p1), p3 = round(s - p1 - p2). -/
open Gen Sweep SweepG
namespace C12

/-- one residual step: from an in-range state, `to_posit` is the rounding `P` of the state, and `-= P` leaves exactly `s - P` -/
theorem split_step_all (q : Int32) (h1 : -2147000000 ≤ q.toInt) (h2 : q.toInt ≤ 2147000000) :
    crate.quire8.convert.Q8E0.to_posit q = .ok (p8 (Spec.round Spec.p8 (mkRat q.toInt 4096))) ∧
    ∃ q', crate.quire8.ops.Q8E0.SubAssign_P8E0.sub_assign q (p8 (Spec.round Spec.p8 (mkRat q.toInt 4096))) = .ok ((), q') ∧
          q'.toInt = sub1 q.toInt (Spec.round Spec.p8 (mkRat q.toInt 4096)) := by
  have hp := q8_to_posit_all q (by omega)
  refine ⟨hp, ?_⟩
  generalize hP : Spec.round Spec.p8 (mkRat q.toInt 4096) = P
  have hlt := C18.round8_lt (mkRat q.toInt 4096)
  have hne := round8_ne_nar (mkRat q.toInt 4096)
  have hb := v64_round_bound (mkRat q.toInt 4096)
  rw [hP] at hlt hne hb
  have hu : Rs.cast_i8_u8 (p8 P) = UInt8.ofNat P := by
    rw [C18.cast_i8_u8_eq]; simp [p8, Sweep.p8]
  have hun : (UInt8.ofNat P).toNat = P := by simp only [UInt8.toNat_ofNat']; omega
  have hreal : UInt8.ofNat P ≠ 128 := by
    intro h; apply hne; have := congrArg UInt8.toNat h; rw [hun] at this; simpa using this
  obtain ⟨q', hq', hv⟩ := C04.q8_step_one q (UInt8.ofNat P) false (by omega) hreal
    (by rw [hun]; simp only [sgn, Bool.false_eq_true, if_false]; omega)
    (by rw [hun]; simp only [sgn, Bool.false_eq_true, if_false]; omega)
  refine ⟨q', ?_, ?_⟩
  · simp only [crate.quire8.ops.Q8E0.SubAssign_P8E0.sub_assign, crate.p8e0.P8E0.to_bits, pure_bind, hu, hq', C04.ok_bind]
    rfl
  · rw [hv, hun]; simp only [sub1, sgn, Bool.false_eq_true, if_false]; omega

/-- **`into_two_posits`**: `p1 = round(s)`, `p2 = round(s - p1)` -/
theorem q8_into_two_all (q : Int32) (h1 : -2146000000 ≤ q.toInt) (h2 : q.toInt ≤ 2146000000) :
    crate.quire8.Q8E0.into_two_posits q =
      .ok (p8 (Spec.round Spec.p8 (mkRat q.toInt 4096)),
           p8 (Spec.round Spec.p8 (mkRat (sub1 q.toInt (Spec.round Spec.p8 (mkRat q.toInt 4096))) 4096))) := by
  obtain ⟨hp, q1, hs, hv⟩ := split_step_all q (by omega) (by omega)
  have hb := v64_round_bound (mkRat q.toInt 4096)
  have hp2 := q8_to_posit_all q1 (by rw [hv]; simp only [sub1]; omega)
  simp only [crate.quire8.Q8E0.into_two_posits, hp, hs, hp2, C04.ok_bind, hv]
  rfl

/-- **`into_three_posits`**: additionally `p3 = round(s - p1 - p2)` -/
theorem q8_into_three_all (q : Int32) (h1 : -2146000000 ≤ q.toInt) (h2 : q.toInt ≤ 2146000000) :
    crate.quire8.Q8E0.into_three_posits q =
      (let P1 := Spec.round Spec.p8 (mkRat q.toInt 4096)
       let s1 := sub1 q.toInt P1
       let P2 := Spec.round Spec.p8 (mkRat s1 4096)
       let s2 := sub1 s1 P2
       .ok (p8 P1, p8 P2, p8 (Spec.round Spec.p8 (mkRat s2 4096)))) := by
  obtain ⟨hp, q1, hs, hv⟩ := split_step_all q (by omega) (by omega)
  have hb := v64_round_bound (mkRat q.toInt 4096)
  have r1a : -2147000000 ≤ q1.toInt := by rw [hv]; simp only [sub1]; omega
  have r1b : q1.toInt ≤ 2147000000 := by rw [hv]; simp only [sub1]; omega
  obtain ⟨hp2, q2, hs2, hv2⟩ := split_step_all q1 r1a r1b
  have hb2 := v64_round_bound (mkRat q1.toInt 4096)
  have hp3 := q8_to_posit_all q2 (by rw [hv2]; simp only [sub1]; omega)
  simp only [hv] at hp2 hs2 hv2
  simp only [hv2] at hp3
  simp only [crate.quire8.Q8E0.into_three_posits, hp, hs, hp2, hs2, hp3, C04.ok_bind]
  rfl

example : (-2146000000 : Int) ≤ (2000000000 : Int32).toInt ∧ (2000000000 : Int32).toInt ≤ 2146000000 := by decide
end C12
