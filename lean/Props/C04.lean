import SweepG
import Lemmas.Sweep
/-! # C04 — quire accumulation is exact (theorems proved so far)

* `q8_step_zero_*`, `q8_one_zero_*`, `q16_one_zero_*`: for EVERY operand (pair), one `+=`/`-=` step from the cleared quire
  leaves exactly the two's-complement fixed-point image of ±a·b (resp. ±a); NaR operands give the NaR quire (NAT sweeps).
* `q8_to_posit_prod`: `to_posit` after one product is the product rounded once.
* spellings: `q += (a, b)`, `q -= (a, b)`, `q += a`, `q -= a`, `add_product`, `sub_product` are the same `fdp` / `fdp_one` call
  for every quire state (FWD — these hold for all 2^32 / 2^128 / 2^512 states).

Not yet a theorem (covered by the history correspondence + oracle of ./check): the step from an arbitrary state and the
history induction; Q32E2 (`fdp` is a hand model). -/
open Gen Sweep SweepG
namespace C04

theorem q8_step_zero_add_sweep : all2 256 256 (q8StepZero true) = true := by native_decide
theorem q8_step_zero_sub_sweep : all2 256 256 (q8StepZero false) = true := by native_decide
theorem q8_one_zero_add_sweep : all1 256 (q8OneZero true) = true := by native_decide
theorem q8_one_zero_sub_sweep : all1 256 (q8OneZero false) = true := by native_decide
theorem q16_one_zero_add_sweep : all1 65536 (q16OneZero true) = true := by native_decide
theorem q16_one_zero_sub_sweep : all1 65536 (q16OneZero false) = true := by native_decide
theorem q8_to_posit_prod_sweep : all2 256 256 q8ToPositProd = true := by native_decide

theorem q8_step_zero (plus : Bool) (a b : UInt8) : q8StepZero plus a.toNat b.toNat = true := by
  cases plus
  · exact all2_imp q8_step_zero_sub_sweep _ a.toNat_lt _ b.toNat_lt
  · exact all2_imp q8_step_zero_add_sweep _ a.toNat_lt _ b.toNat_lt
theorem q8_one_zero (plus : Bool) (a : UInt8) : q8OneZero plus a.toNat = true := by
  cases plus
  · exact all1_imp q8_one_zero_sub_sweep _ a.toNat_lt
  · exact all1_imp q8_one_zero_add_sweep _ a.toNat_lt
theorem q16_one_zero (plus : Bool) (a : UInt16) : q16OneZero plus a.toNat = true := by
  cases plus
  · exact all1_imp q16_one_zero_sub_sweep _ a.toNat_lt
  · exact all1_imp q16_one_zero_add_sweep _ a.toNat_lt
theorem q8_to_posit_prod (a b : UInt8) : q8ToPositProd a.toNat b.toNat = true :=
  all2_imp q8_to_posit_prod_sweep _ a.toNat_lt _ b.toNat_lt

/-! spellings (every quire state, every operand) -/
theorem q8_add_assign_pair (q : Int32) (a b : Int8) :
    crate.quire8.ops.Q8E0.AddAssign_LP8E0_P8E0R.add_assign q (a, b) =
      (do let x ← crate.p8e0.P8E0.to_bits a; let y ← crate.p8e0.P8E0.to_bits b; crate.quire8.ops.fdp q x y true) := by
  simp [crate.quire8.ops.Q8E0.AddAssign_LP8E0_P8E0R.add_assign]
theorem q8_sub_assign_pair (q : Int32) (a b : Int8) :
    crate.quire8.ops.Q8E0.SubAssign_LP8E0_P8E0R.sub_assign q (a, b) =
      (do let x ← crate.p8e0.P8E0.to_bits a; let y ← crate.p8e0.P8E0.to_bits b; crate.quire8.ops.fdp q x y false) := by
  simp [crate.quire8.ops.Q8E0.SubAssign_LP8E0_P8E0R.sub_assign]
theorem q8_add_product (q : Int32) (a b : Int8) :
    crate.quire8.Q8E0.add_product q a b =
      (do let x ← crate.p8e0.P8E0.to_bits a; let y ← crate.p8e0.P8E0.to_bits b; crate.quire8.ops.fdp q x y true) := by
  simp [crate.quire8.Q8E0.add_product]

end C04
