import DriverSpecOps
import SpecExtra
/-! `specdriver`: the specification `Spec` vs the real crate.  A SPEC_MISMATCH is a replayable property failure of the
implementation.  Does not import `Gen`, so it keeps working when the generated model does not build. -/
open DriverCommon
def evalSpec (ws : List String) (res : String) : Option (Option String) :=
  match SpecExtra.handle ws res with
  | some r => some r
  | none =>
    let a := hexU64 (ws.getD 2 "0"); let b := hexU64 (ws.getD 3 "0"); let c := hexU64 (ws.getD 4 "0"); let d := hexU64 (ws.getD 5 "0")
    match DriverSpecOps.spec ws[0]! ws[1]! a b c d with
    | none => none
    | some none => some none
    | some (some v) => some (some (toHex v))
def main : IO Unit := loop "SPEC" evalSpec
