import Spec.Basic
import Spec.Num
import Spec.Ops
import Spec.Tables
import Spec.Poly
