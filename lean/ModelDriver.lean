import DriverOps
import ModelExtra
/-! `modeldriver`: the generated model `Gen` vs the real crate (tie B).  A MODEL_MISMATCH means the model no longer
describes the code (translator, primitive table or a stale override) — the tie is broken. -/
open DriverCommon
def evalModel (ws : List String) (_res : String) : Option (Option String) :=
  match ModelExtra.handle ws with
  | some r => some r
  | none =>
    let a := hexU64 (ws.getD 2 "0"); let b := hexU64 (ws.getD 3 "0"); let c := hexU64 (ws.getD 4 "0"); let d := hexU64 (ws.getD 5 "0")
    match DriverOps.model ws[0]! ws[1]! a b c d with
    | none => none
    | some (.ok v) => some (some (toHex v.toNat))
    | some (.error _) => some (some "PANIC")
def main : IO Unit := loop "MODEL" evalModel
