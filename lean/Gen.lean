import Gen.Core
import Gen.P8
import Gen.P16
import Gen.P32
import Gen.PX1
import Gen.PX2
import Gen.P32M
