import Spec.Ops
/-! # Spec.Poly — polynomial evaluation as fused dot products (C18)

`fdp f terms` is the single posit rounding of the exact sum of products.  `polyN` follows the crate's documentation:
`x2 = x*x`, `x3 = x2*x`, `x4 = x2*x2` are individually rounded posit products; degrees 1–4 are one fused dot product of the
coefficients (highest degree first) with the powers; higher degrees and `poly3a`/`poly4a` apply the same construction in
stages, the rounded value of the inner stage entering the outer stage as the coefficient of its highest power. -/
namespace Spec

def fdp (f : Fmt) (terms : List (Nat × Nat)) : Nat :=
  let r : Option Rat := terms.foldl (fun acc t => match acc, toRat f t.1, toRat f t.2 with
    | some s, some a, some b => some (s + a * b)
    | _, _, _ => none) (some 0)
  match r with | some s => round f s | none => nar f

structure Pows where
  x : Nat
  x2 : Nat
  x3 : Nat
  x4 : Nat

def pows (f : Fmt) (x : Nat) : Pows :=
  let x2 := mul f x x
  ⟨x, x2, mul f x2 x, mul f x2 x2⟩

/-- one stage: `top` multiplies the highest power; `c` are the remaining coefficients, highest degree first (1 … 4 of them) -/
def stage (f : Fmt) (p : Pows) (top : Nat) (c : List Nat) : Nat :=
  let o := one f
  match c with
  | [c1] => fdp f [(o, c1), (p.x, top)]
  | [c0, c1] => fdp f [(o, c1), (p.x, c0), (p.x2, top)]
  | [c0, c1, c2] => fdp f [(o, c2), (p.x, c1), (p.x2, c0), (p.x3, top)]
  | [c0, c1, c2, c3] => fdp f [(o, c3), (p.x, c2), (p.x2, c1), (p.x3, c0), (p.x4, top)]
  | _ => nar f

/-- `polyNk`: the chain of stages of the crate (`poly5k = poly3k ∘ poly2kt`, `poly6k = poly3k ∘ poly3kt`, `poly7k = poly4k ∘ poly3kt`,
`poly8k = poly4k ∘ poly4kt`, and `poly(n+4)k = poly4k ∘ poly(n)k` from 9 on); `c` has `n` entries -/
def polyK (f : Fmt) (p : Pows) : Nat → Nat → List Nat → Nat
  | 0, top, _ => top
  | fuel + 1, top, c =>
    let n := c.length
    if n ≤ 4 then stage f p top c
    else if n = 5 then stage f p (stage f p top (c.take 2)) (c.drop 2)
    else if n = 6 then stage f p (stage f p top (c.take 3)) (c.drop 3)
    else if n = 7 then stage f p (stage f p top (c.take 3)) (c.drop 3)
    else if n = 8 then stage f p (stage f p top (c.take 4)) (c.drop 4)
    else stage f p (polyK f p fuel top (c.take (n - 4))) (c.drop (n - 4))

/-- `x.polyN(&[c0, …, cN])`, coefficients highest degree first -/
def poly (f : Fmt) (x : Nat) (c : List Nat) : Nat :=
  match c with
  | [] => nar f
  | c0 :: rest => polyK f (pows f x) (rest.length + 1) c0 rest

/-- `poly3a`: `p = poly1k(x, c0, c1)`, then `poly2k(x, x2, p, [c2, c3])` -/
def poly3a (f : Fmt) (x : Nat) (c : List Nat) : Nat :=
  match c with
  | [c0, c1, c2, c3] => let p := pows f x; stage f p (stage f p c0 [c1]) [c2, c3]
  | _ => nar f
/-- `poly4a`: `p = poly2kt(x, x2, c0, [c1, c2])`, then `poly2k(x, x2, p, [c3, c4])` -/
def poly4a (f : Fmt) (x : Nat) (c : List Nat) : Nat :=
  match c with
  | [c0, c1, c2, c3, c4] => let p := pows f x; stage f p (stage f p c0 [c1, c2]) [c3, c4]
  | _ => nar f
end Spec
