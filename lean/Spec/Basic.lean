/-!
# Spec.Basic — the mathematical meaning of posit bit patterns and of "the posit rule"

Mathlib-free and executable (core `Rat`, the same type as Mathlib's `ℚ`).  This file is what the property
theorems are stated against and what the driver evaluates as the oracle (DESIGN.md §3).

* `Fmt n es`          an n-bit posit format with `es` exponent bits (P8E0 = (8,0), P16E1 = (16,1), P32E2 = (32,2));
                      `PxE1<N>`/`PxE2<N>` are the (N,1)/(N,2) posits stored left-aligned in 32 bits.
* `toRat f x`         the real value of pattern `x` (`none` for NaR).
* `round f q`         the posit-rule rounding of the rational `q` (Posit Standard 2022 §4, SoftPosit's rule):
                      round to nearest on the unbounded encoding, ties to the even encoding, never to zero,
                      saturating at ±maxpos / ±minpos.
* `roundS f q sticky` the same for the real `q + ε` (ε positive infinitesimal if `sticky`), used where the exact
                      result is irrational (square roots) and known only as "truncation + inexact flag".
-/
namespace Spec

structure Fmt where
  n : Nat
  es : Nat
  deriving Repr, DecidableEq

def p8 : Fmt := ⟨8, 0⟩
def p16 : Fmt := ⟨16, 1⟩
def p32 : Fmt := ⟨32, 2⟩
def px1 (n : Nat) : Fmt := ⟨n, 1⟩
def px2 (n : Nat) : Fmt := ⟨n, 2⟩

/-- `2^e` for an integer exponent -/
def pow2 (e : Int) : Rat := if e ≥ 0 then ((2 : Rat) ^ e.toNat) else 1 / ((2 : Rat) ^ (-e).toNat)

/-- NaR pattern -/
def nar (f : Fmt) : Nat := 2 ^ (f.n - 1)
def maxposBits (f : Fmt) : Nat := 2 ^ (f.n - 1) - 1

/-- length of the leading run of bits equal to the top bit, in an `m`-bit body `c` -/
def runLen (m c : Nat) : Nat :=
  let top := c.testBit (m - 1)
  let rec go (i : Nat) (fuel : Nat) : Nat :=
    match fuel with
    | 0 => i
    | f + 1 => if i < m ∧ c.testBit (m - 1 - i) == top then go (i + 1) f else i
  go 0 m

/-- the fields of a positive body: regime value `k`, exponent `e` (missing low exponent bits are 0),
    fraction numerator `fr` and number of fraction bits `fb` -/
def fields (f : Fmt) (c : Nat) : Int × Nat × Nat × Nat :=
  let m := f.n - 1
  let run := runLen m c
  let top := c.testBit (m - 1)
  let k : Int := if top then (run : Int) - 1 else -(run : Int)
  let restBits := m - run - 1          -- Nat subtraction: 0 if the regime fills the body
  let rest := c % 2 ^ restBits
  if restBits ≥ f.es then
    let fb := restBits - f.es
    (k, rest / 2 ^ fb, rest % 2 ^ fb, fb)
  else (k, rest * 2 ^ (f.es - restBits), 0, 0)

/-- value of a positive body `c ∈ [1, 2^(n-1) - 1]` -/
def decodePos (f : Fmt) (c : Nat) : Rat :=
  let (k, e, fr, fb) := fields f c
  pow2 (k * (2 ^ f.es : Nat) + e) * (1 + (fr : Rat) / (2 ^ fb : Nat))

/-- the real value of the `n`-bit pattern `x`; `none` for NaR -/
def toRat (f : Fmt) (x : Nat) : Option Rat :=
  if x = 0 then some 0
  else if x = 2 ^ (f.n - 1) then none
  else if x < 2 ^ (f.n - 1) then some (decodePos f x)
  else some (-(decodePos f (2 ^ f.n - x)))

/-- `⌊log2 q⌋` for `q > 0` -/
def ilog2 (q : Rat) : Int :=
  let s : Int := (Nat.log2 q.num.toNat : Int) - (Nat.log2 q.den : Int)
  if pow2 s > q then s - 1 else if pow2 (s + 1) ≤ q then s + 1 else s

/-- round to nearest integer, ties to even, of `B + ε·[sticky]` for `B ≥ 0` -/
def rneNat (B : Rat) (sticky : Bool) : Nat :=
  let fl := B.floor.toNat
  let rem := B - fl
  if rem > 1 / 2 ∨ (rem = 1 / 2 ∧ (sticky ∨ fl % 2 = 1)) then fl + 1 else fl

/-- posit-rule rounding of a positive rational (plus infinitesimal if `sticky`) to a body in `[1, 2^(n-1)-1]` -/
def roundPosS (f : Fmt) (q : Rat) (sticky : Bool) : Nat :=
  let m := f.n - 1
  let maxpos := pow2 (((m : Int) - 1) * (2 ^ f.es : Nat))
  if q ≥ maxpos then 2 ^ m - 1
  else if q ≤ 1 / maxpos then 1
  else
    let s := ilog2 q
    let k := Int.fdiv s (2 ^ f.es : Nat)
    let e := s - k * (2 ^ f.es : Nat)
    let fr := q / pow2 s - 1
    -- regime of value k as a bit string: k ≥ 0: (k+1) ones then a zero; k < 0: (-k) zeros then a one
    let (rl, regv) : Nat × Nat := if k ≥ 0 then (k.toNat + 2, 2 ^ (k.toNat + 2) - 2) else ((-k).toNat + 1, 1)
    -- the unbounded encoding regime ‖ exponent ‖ fraction, scaled so that its integer part has m bits
    let B : Rat := ((regv * 2 ^ f.es : Nat) + (e : Rat) + fr) * pow2 ((m : Int) - rl - f.es)
    max 1 (min (2 ^ m - 1) (rneNat B sticky))

def roundS (f : Fmt) (q : Rat) (sticky : Bool) : Nat :=
  if q = 0 then (if sticky then 1 else 0)
  else if q > 0 then roundPosS f q sticky
  else (2 ^ f.n - roundPosS f (-q) sticky) % 2 ^ f.n

/-- the posit rule -/
def round (f : Fmt) (q : Rat) : Nat := roundS f q false

/-- two's-complement negation of an n-bit pattern -/
def negBits (f : Fmt) (x : Nat) : Nat := (2 ^ f.n - x) % 2 ^ f.n

/-- signed reading of an n-bit pattern (the order of posits is the order of this integer) -/
def sint (f : Fmt) (x : Nat) : Int := if x < 2 ^ (f.n - 1) then x else (x : Int) - 2 ^ f.n

/-- generic-width posits are stored left-aligned in 32 bits -/
def embed (n : Nat) (x : Nat) : Nat := x * 2 ^ (32 - n)
def unembed (n : Nat) (bits : Nat) : Nat := bits / 2 ^ (32 - n)
def lowZero (n : Nat) (bits : Nat) : Bool := bits % 2 ^ (32 - n) == 0

end Spec
