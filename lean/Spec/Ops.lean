import Spec.Basic
import Spec.Num
/-! # Spec.Ops — the specification of each public operation, on bit patterns (`Nat`), generic in the format -/
namespace Spec

def lift1 (f : Fmt) (g : Rat → Option Rat) (a : Nat) : Nat :=
  match toRat f a with
  | some x => match g x with
    | some q => round f q
    | none => nar f
  | none => nar f

def lift2 (f : Fmt) (g : Rat → Rat → Option Rat) (a b : Nat) : Nat :=
  match toRat f a, toRat f b with
  | some x, some y => match g x y with
    | some q => round f q
    | none => nar f
  | _, _ => nar f

def add (f : Fmt) := lift2 f fun x y => some (x + y)
def sub (f : Fmt) := lift2 f fun x y => some (x - y)
def mul (f : Fmt) := lift2 f fun x y => some (x * y)
def div (f : Fmt) := lift2 f fun x y => if y = 0 then none else some (x / y)
def neg (f : Fmt) (a : Nat) : Nat := negBits f a

/-- fused multiply-add family: kind 0 = a*b+c, 1 = a*b-c, 2 = c-a*b -/
def fma (f : Fmt) (kind : Nat) (a b c : Nat) : Nat :=
  match toRat f a, toRat f b, toRat f c with
  | some x, some y, some z =>
    round f (if kind = 0 then x * y + z else if kind = 1 then x * y - z else z - x * y)
  | _, _, _ => nar f

def sqrt (f : Fmt) (a : Nat) : Nat :=
  match toRat f a with
  | none => nar f
  | some q =>
    if q < 0 then nar f else if q = 0 then 0 else
    let (r, inexact) := sqrtApprox q 160
    roundS f r inexact

/-- the posit holding the integer `i` (exactly representable for the integers the callers produce) -/
def ofIntExact (f : Fmt) (i : Int) : Nat := round f i

def roundI (f : Fmt) (mode : Nat) (a : Nat) : Nat :=
  match toRat f a with
  | none => nar f
  | some q =>
    let i : Int := if mode = 0 then rneInt q else if mode = 1 then q.floor else if mode = 2 then q.ceil else truncInt q
    ofIntExact f i

def fract (f : Fmt) (a : Nat) : Nat :=
  match toRat f a with
  | none => nar f
  | some q => round f (q - truncInt q)

/-- NaN pattern produced for NaR -/
def f64Nan : Nat := 0x7ff8000000000000
def f32Nan : Nat := 0x7fc00000

def toF64 (f : Fmt) (a : Nat) : Nat := match toRat f a with | none => f64Nan | some q => f64OfRat q
def toF32 (f : Fmt) (a : Nat) : Nat := match toRat f a with | none => f32Nan | some q => f32OfRat q
def ofF64 (f : Fmt) (bits : Nat) : Nat := match f64ToRat bits with | none => nar f | some q => round f q
def ofF32 (f : Fmt) (bits : Nat) : Nat := match f32ToRat bits with | none => nar f | some q => round f q

/-- posit → integer of `w` bits: nearest-even, clamped; NaR is outside the property (value recorded separately) -/
def toInt (f : Fmt) (w : Nat) (signed : Bool) (a : Nat) : Option Nat :=
  match toRat f a with
  | none => none
  | some q =>
    let lo : Int := if signed then -(2 ^ (w - 1) : Nat) else 0
    let hi : Int := if signed then (2 ^ (w - 1) : Nat) - 1 else (2 ^ w : Nat) - 1
    some (intBits w (clampInt lo hi (rneInt q)))

def ofInt (f : Fmt) (w : Nat) (signed : Bool) (bits : Nat) : Nat :=
  round f (if signed then bitsInt w bits else (bits : Int))

/-- posit → posit conversion -/
def conv (f g : Fmt) (a : Nat) : Nat := match toRat f a with | none => nar g | some q => round g q

/-! order and sign -/
def lt (f : Fmt) (a b : Nat) : Bool := sint f a < sint f b
def le (f : Fmt) (a b : Nat) : Bool := sint f a ≤ sint f b
def cmp (f : Fmt) (a b : Nat) : Nat := if sint f a < sint f b then 0 else if a = b then 1 else 2   -- Less/Equal/Greater
def pmin (f : Fmt) (a b : Nat) : Nat := if sint f b < sint f a then b else a
def pmax (f : Fmt) (a b : Nat) : Nat := if sint f b < sint f a then a else b
def abs (f : Fmt) (a : Nat) : Nat := if sint f a < 0 then negBits f a else a
def one (f : Fmt) : Nat := 2 ^ (f.n - 2)
def signum (f : Fmt) (a : Nat) : Nat :=
  if a = nar f then nar f else if a = 0 then 0 else if sint f a < 0 then negBits f (one f) else one f
def copysign (f : Fmt) (a b : Nat) : Nat :=
  if (sint f a < 0) = (sint f b < 0) then a else negBits f a

/-! quire: exact accumulation -/
inductive QOp | addProd (a b : Nat) | subProd (a b : Nat) | addOne (a : Nat) | subOne (a : Nat) | neg | clear
  | load (bits : Nat)   -- `Q::from_bits`: the accumulator is set to an arbitrary two's-complement image

structure QFmt where
  p : Fmt
  w : Nat
  fb : Nat
def q8 : QFmt := ⟨p8, 32, 12⟩
def q16 : QFmt := ⟨p16, 128, 56⟩
def q32 : QFmt := ⟨p32, 512, 240⟩

/-- abstract quire state: `none` = NaR, `some s` = exact sum -/
def qStep (qf : QFmt) (s : Option Rat) : QOp → Option Rat
  | .clear => some 0
  | .neg => s.map (fun x => -x)
  | .addProd a b => match s, toRat qf.p a, toRat qf.p b with | some s, some x, some y => some (s + x * y) | _, _, _ => none
  | .subProd a b => match s, toRat qf.p a, toRat qf.p b with | some s, some x, some y => some (s - x * y) | _, _, _ => none
  | .addOne a => match s, toRat qf.p a with | some s, some x => some (s + x) | _, _ => none
  | .subOne a => match s, toRat qf.p a with | some s, some x => some (s - x) | _, _ => none
  | .load b =>
    let b := b % 2 ^ qf.w
    if b == 2 ^ (qf.w - 1) then none
    else some (((if b < 2 ^ (qf.w - 1) then (b : Int) else (b : Int) - (2 ^ qf.w : Nat)) : Int) / ((2 ^ qf.fb : Nat) : Rat))

def qInRange (qf : QFmt) (s : Option Rat) : Bool :=
  match s with
  | none => true
  | some x => let lim : Rat := pow2 ((qf.w : Int) - 1 - qf.fb); decide (-lim < x) && decide (x < lim)

def qBits (qf : QFmt) (s : Option Rat) : Nat :=
  match s with | none => 2 ^ (qf.w - 1) | some x => quireOfRat qf.w qf.fb x
def qToPosit (qf : QFmt) (s : Option Rat) : Nat :=
  match s with | none => nar qf.p | some x => round qf.p x

end Spec

namespace Spec
/-! generic-width posits: patterns are left-aligned in 32 bits; a pattern with non-zero low `32-n` bits is outside C13/C14 -/
def pxIn (n : Nat) (a : Nat) : Option Nat := if 2 ≤ n ∧ n ≤ 32 ∧ lowZero n a then some (unembed n a) else none
def pxLift1 (n : Nat) (a : Nat) (f : Nat → Nat) : Option Nat := (pxIn n a).map f
def pxLift2 (n : Nat) (a b : Nat) (f : Nat → Nat → Nat) : Option Nat :=
  match pxIn n a, pxIn n b with | some x, some y => some (f x y) | _, _ => none
def pxLift3 (n : Nat) (a b c : Nat) (f : Nat → Nat → Nat → Nat) : Option Nat :=
  match pxIn n a, pxIn n b, pxIn n c with | some x, some y, some z => some (f x y z) | _, _, _ => none
end Spec
