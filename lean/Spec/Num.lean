import Spec.Basic
/-! # Spec.Num — IEEE-754 binary32/binary64 values, integer rounding, quire fixed point -/
namespace Spec

/-- value of an IEEE float pattern with `eb` exponent bits and `mb` mantissa bits; `none` for inf / NaN -/
def floatToRat (eb mb : Nat) (bits : Nat) : Option Rat :=
  let sign := bits / 2 ^ (eb + mb) % 2
  let e := bits / 2 ^ mb % 2 ^ eb
  let m := bits % 2 ^ mb
  let bias : Int := 2 ^ (eb - 1) - 1
  if e = 2 ^ eb - 1 then none
  else
    let mag : Rat := if e = 0 then (m : Rat) * pow2 (1 - bias - mb) else ((2 ^ mb + m : Nat) : Rat) * pow2 ((e : Int) - bias - mb)
    some (if sign = 1 then -mag else mag)

def f32ToRat := floatToRat 8 23
def f64ToRat := floatToRat 11 52
def floatIsNan (eb mb : Nat) (bits : Nat) : Bool := bits / 2 ^ mb % 2 ^ eb == 2 ^ eb - 1 && bits % 2 ^ mb != 0

/-- IEEE round-to-nearest-even of a rational to a float pattern (overflow to infinity; `-0` never produced: 0 ↦ +0) -/
def floatOfRat (eb mb : Nat) (q : Rat) : Nat :=
  if q = 0 then 0 else
  let sign := if q < 0 then 2 ^ (eb + mb) else 0
  let a := if q < 0 then -q else q
  let bias : Int := 2 ^ (eb - 1) - 1
  let s := ilog2 a
  let emin : Int := 1 - bias
  let sc : Int := (if s < emin then emin else s) - mb      -- value = M · 2^sc with M rounded to an integer
  let M := rneNat (a / pow2 sc) false
  -- M < 2^(mb+1) possibly = 2^(mb+1) after rounding up; encode
  let (M, sc) := if M ≥ 2 ^ (mb + 1) then (M / 2, sc + 1) else (M, sc)
  if M < 2 ^ mb then sign + M            -- subnormal (sc = emin - mb)
  else
    let e : Int := sc + mb + bias
    if e ≥ 2 ^ eb - 1 then sign + (2 ^ eb - 1) * 2 ^ mb
    else sign + e.toNat * 2 ^ mb + (M - 2 ^ mb)

def f32OfRat := floatOfRat 8 23
def f64OfRat := floatOfRat 11 52

/-- nearest integer, ties to even -/
def rneInt (q : Rat) : Int :=
  let fl := q.floor
  let rem := q - fl
  if rem > 1 / 2 ∨ (rem = 1 / 2 ∧ fl % 2 = 1) then fl + 1 else fl

def truncInt (q : Rat) : Int := if q ≥ 0 then q.floor else q.ceil

def clampInt (lo hi : Int) (i : Int) : Int := if i < lo then lo else if i > hi then hi else i

/-- two's-complement pattern of an integer in `w` bits -/
def intBits (w : Nat) (i : Int) : Nat := (i % (2 ^ w : Nat)).toNat
def bitsInt (w : Nat) (b : Nat) : Int := if b < 2 ^ (w - 1) then b else (b : Int) - 2 ^ w

/-- quire value: `w`-bit two's-complement integer over `2^fb` -/
def quireVal (w fb : Nat) (bits : Nat) : Rat := (bitsInt w bits : Rat) / (2 ^ fb : Nat)
def quireOfRat (w fb : Nat) (q : Rat) : Nat := intBits w (q * (2 ^ fb : Nat)).floor

/-- scaled integer square root: for `q > 0` returns `(r, inexact)` with `r ≤ √q < r + 2^-K`-ish,
    precisely `r = ⌊√(q·4^K)⌋ / 2^K` and `inexact = (r² ≠ q)` -/
def sqrtApprox (q : Rat) (K : Nat) : Rat × Bool :=
  -- q = a/b ; √(a/b) = √(a·b)/b ; ⌊√(a·b·4^K)⌋ / (b·2^K)
  let a := q.num.toNat
  let b := q.den
  let s := Nat.sqrt (a * b * 4 ^ K)
  let r : Rat := (s : Rat) / ((b * 2 ^ K : Nat) : Rat)
  (r, r * r != q)

end Spec
