import Sweep.Basic
import Sweep.Checks
