import Sweep.Basic
import Sweep.Checks
import Sweep.Bits
