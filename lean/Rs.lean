namespace Rs
inductive Trap | overflow | shift | divzero | index | panic | fuel | assume
  deriving Repr, DecidableEq, Inhabited
abbrev M := Except Trap
inductive Ctl (σ ρ : Type) | cont (s : σ) | brk (s : σ) | ret (r : ρ)
inductive LoopRes (σ ρ : Type) | done (s : σ) | ret (r : ρ)
@[inline] def constVal {α} [Inhabited α] (x : M α) : α := match x with | .ok v => v | .error _ => default
abbrev Enum := Nat
structure U128 where bv : BitVec 128 deriving DecidableEq, Inhabited
structure I128 where bv : BitVec 128 deriving DecidableEq, Inhabited
instance : LT U128 := ⟨fun a b => a.bv < b.bv⟩
instance : LE U128 := ⟨fun a b => a.bv ≤ b.bv⟩
instance (a b : U128) : Decidable (a < b) := inferInstanceAs (Decidable (a.bv < b.bv))
instance (a b : U128) : Decidable (a ≤ b) := inferInstanceAs (Decidable (a.bv ≤ b.bv))
instance : LT I128 := ⟨fun a b => a.bv.slt b.bv = true⟩
instance : LE I128 := ⟨fun a b => a.bv.sle b.bv = true⟩
instance (a b : I128) : Decidable (a < b) := inferInstanceAs (Decidable (_ = true))
instance (a b : I128) : Decidable (a ≤ b) := inferInstanceAs (Decidable (_ = true))
instance : AndOp U128 := ⟨fun a b => ⟨a.bv &&& b.bv⟩⟩
instance : OrOp U128 := ⟨fun a b => ⟨a.bv ||| b.bv⟩⟩
instance : XorOp U128 := ⟨fun a b => ⟨a.bv ^^^ b.bv⟩⟩
instance : AndOp I128 := ⟨fun a b => ⟨a.bv &&& b.bv⟩⟩
instance : OrOp I128 := ⟨fun a b => ⟨a.bv ||| b.bv⟩⟩
instance : XorOp I128 := ⟨fun a b => ⟨a.bv ^^^ b.bv⟩⟩
def not_u128 (a : U128) : U128 := ⟨~~~a.bv⟩
def not_i128 (a : I128) : I128 := ⟨~~~a.bv⟩
structure Q32E2 where
  f0 : Int64
  f1 : UInt64
  f2 : UInt64
  f3 : UInt64
  f4 : UInt64
  f5 : UInt64
  f6 : UInt64
  f7 : UInt64
  deriving Inhabited, DecidableEq
structure F64 where bits : UInt64 deriving DecidableEq, Inhabited
structure F32 where bits : UInt32 deriving DecidableEq, Inhabited
def F64.ofBits (n : Nat) : F64 := ⟨UInt64.ofNat n⟩
def F32.ofBits (n : Nat) : F32 := ⟨UInt32.ofNat n⟩
@[inline] def F64.f (x : F64) : Float := Float.ofBits x.bits
@[inline] def F64.of (x : Float) : F64 := ⟨x.toBits⟩
@[inline] def F32.f (x : F32) : Float32 := Float32.ofBits x.bits
@[inline] def F32.of (x : Float32) : F32 := ⟨x.toBits⟩
def index {α} [Inhabited α] (a : Array α) (i : UInt64) : M α := if h : i.toNat < a.size then .ok a[i.toNat] else .error .index
def setIndex {α} (a : Array α) (i : UInt64) (v : α) : M (Array α) := if i.toNat < a.size then .ok (a.set! i.toNat v) else .error .index
@[inline] def toInt_bool (b : Bool) : Int := if b then 1 else 0
structure ArrIter (α : Type) where
  arr : Array α
  i : Nat
  deriving Inhabited
structure RangeIter where
  lo : UInt64
  hi : UInt64
  deriving Inhabited
class Iter (ι : Type) (α : outParam Type) where
  next : ι → Option α × ι
instance {α} : Iter (ArrIter α) α := ⟨fun it => if h : it.i < it.arr.size then (some it.arr[it.i], {it with i := it.i + 1}) else (none, it)⟩
instance : Iter RangeIter UInt64 := ⟨fun it => if it.lo < it.hi then (some it.lo, {it with lo := it.lo + 1}) else (none, it)⟩
@[inline] def iter_next {ι α} [Iter ι α] (it : ι) : Option α × ι := Iter.next it
@[inline] def arr_iter {α} (a : Array α) : ArrIter α := ⟨a, 0⟩
def slice_from {α} (a : Array α) (r : RangeIter) : M (Array α) := if r.lo.toNat ≤ a.size then .ok (a.extract r.lo.toNat a.size) else .error .index
def slice_to {α} (a : Array α) (r : RangeIter) : M (Array α) := if r.hi.toNat ≤ a.size then .ok (a.extract 0 r.hi.toNat) else .error .index
def slice_range {α} (a : Array α) (r : RangeIter) : M (Array α) := if r.lo ≤ r.hi ∧ r.hi.toNat ≤ a.size then .ok (a.extract r.lo.toNat r.hi.toNat) else .error .index
@[inline] def toInt_enum (b : Enum) : Int := b
/-- `rng.gen_range(lo..hi)`: the drawn value is an input of the model; `Trap.assume` = the input violates rand's contract -/
@[inline] def gen_range_u8 (r lo hi : UInt8) : M UInt8 := if lo ≤ r ∧ r < hi then .ok r else .error .assume
@[inline] def gen_range_u32 (r lo hi : UInt32) : M UInt32 := if lo ≤ r ∧ r < hi then .ok r else .error .assume
@[inline] def gen_range_incl_u8 (r lo hi : UInt8) : M UInt8 := if lo ≤ r ∧ r ≤ hi then .ok r else .error .assume
@[inline] def gen_range_incl_u32 (r lo hi : UInt32) : M UInt32 := if lo ≤ r ∧ r ≤ hi then .ok r else .error .assume
/-- `<[T]>::len` -/
@[inline] def len_x {α} (a : Array α) : UInt64 := UInt64.ofNat a.size

@[inline] def add_f64 (a b : F64) : F64 := F64.of (a.f + b.f)
@[inline] def add_f32 (a b : F32) : F32 := F32.of (a.f + b.f)
@[inline] def sub_f64 (a b : F64) : F64 := F64.of (a.f - b.f)
@[inline] def sub_f32 (a b : F32) : F32 := F32.of (a.f - b.f)
@[inline] def mul_f64 (a b : F64) : F64 := F64.of (a.f * b.f)
@[inline] def mul_f32 (a b : F32) : F32 := F32.of (a.f * b.f)
@[inline] def div_f64 (a b : F64) : F64 := F64.of (a.f / b.f)
@[inline] def div_f32 (a b : F32) : F32 := F32.of (a.f / b.f)
@[inline] def lt_f64 (a b : F64) : Bool := decide (a.f < b.f)
@[inline] def lt_f32 (a b : F32) : Bool := decide (a.f < b.f)
@[inline] def le_f64 (a b : F64) : Bool := decide (a.f <= b.f)
@[inline] def le_f32 (a b : F32) : Bool := decide (a.f <= b.f)
@[inline] def gt_f64 (a b : F64) : Bool := decide (a.f > b.f)
@[inline] def gt_f32 (a b : F32) : Bool := decide (a.f > b.f)
@[inline] def ge_f64 (a b : F64) : Bool := decide (a.f >= b.f)
@[inline] def ge_f32 (a b : F32) : Bool := decide (a.f >= b.f)
@[inline] def eq_f64 (a b : F64) : Bool := a.f == b.f
@[inline] def ne_f64 (a b : F64) : Bool := !(a.f == b.f)
@[inline] def eq_f32 (a b : F32) : Bool := a.f == b.f
@[inline] def ne_f32 (a b : F32) : Bool := !(a.f == b.f)
@[inline] def neg_f64 (a : F64) : F64 := F64.of (-a.f)
@[inline] def neg_f32 (a : F32) : F32 := F32.of (-a.f)
@[inline] def is_finite_f64 (a : F64) : Bool := a.f.isFinite
@[inline] def cast_f64_f32 (a : F64) : F32 := F32.of a.f.toFloat32
@[inline] def cast_f32_f64 (a : F32) : F64 := F64.of a.f.toFloat
@[inline] def transmute_u64_f64 (a : UInt64) : F64 := ⟨a⟩
@[inline] def transmute_f64_u64 (a : F64) : UInt64 := a.bits
@[inline] def transmute_u32_f32 (a : UInt32) : F32 := ⟨a⟩
@[inline] def transmute_f32_u32 (a : F32) : UInt32 := a.bits
@[inline] def from_bits_f64 (a : UInt64) : F64 := ⟨a⟩
@[inline] def to_bits_f64 (a : F64) : UInt64 := a.bits
@[inline] def from_bits_f32 (a : UInt32) : F32 := ⟨a⟩
@[inline] def to_bits_f32 (a : F32) : UInt32 := a.bits
@[inline] def new_f64 (a b : F64) : F64 × F64 := (a,b)
@[inline] def contains_x (r : F64 × F64) (x : F64) : Bool := le_f64 r.1 x && le_f64 x r.2
def const_f64_E : F64 := F64.ofBits 4613303445314885481
def const_f64_FRAC_1_PI : F64 := F64.ofBits 4599405781057128579
def const_f64_FRAC_1_SQRT_2 : F64 := F64.ofBits 4604544271217802189
def const_f64_FRAC_2_PI : F64 := F64.ofBits 4603909380684499075
def const_f64_FRAC_2_SQRT_PI : F64 := F64.ofBits 4607760587169110893
def const_f64_FRAC_PI_2 : F64 := F64.ofBits 4609753056924675352
def const_f64_FRAC_PI_3 : F64 := F64.ofBits 4607394977673999205
def const_f64_FRAC_PI_4 : F64 := F64.ofBits 4605249457297304856
def const_f64_FRAC_PI_6 : F64 := F64.ofBits 4602891378046628709
def const_f64_FRAC_PI_8 : F64 := F64.ofBits 4600745857669934360
def const_f64_LN_10 : F64 := F64.ofBits 4612367379483415830
def const_f64_LN_2 : F64 := F64.ofBits 4604418534313441775
def const_f64_LOG10_2 : F64 := F64.ofBits 4599094494223104511
def const_f64_LOG10_E : F64 := F64.ofBits 4601495173785380110
def const_f64_LOG2_10 : F64 := F64.ofBits 4614662735865160561
def const_f64_LOG2_E : F64 := F64.ofBits 4609176140021203710
def const_f64_PI : F64 := F64.ofBits 4614256656552045848
def const_f64_SQRT_2 : F64 := F64.ofBits 4609047870845172685
def const_f64_NAN : F64 := F64.ofBits 9221120237041090560
def const_f64_INFINITY : F64 := F64.ofBits 9218868437227405312
def const_f32_NAN : F32 := F32.ofBits 2143289344
def const_f32_MANTISSA_DIGITS : UInt32 := 24
def const_f64_MANTISSA_DIGITS : UInt32 := 53
def const_f32_MAX_EXP : Int32 := 128
def const_f64_MAX_EXP : Int32 := 1024
@[inline] def toInt_u8 (x : UInt8) : Int := (x.toNat : Int)
@[inline] def ofInt_u8 (i : Int) : UInt8 := UInt8.ofNat (i % 256).toNat
@[inline] def chk_u8 (i : Int) : M UInt8 := if i < 0 || i > 255 then .error .overflow else .ok (ofInt_u8 i)
@[inline] def add_u8 (a b : UInt8) : M UInt8 := chk_u8 (toInt_u8 a + toInt_u8 b)
@[inline] def wrapping_add_u8 (a b : UInt8) : UInt8 := ofInt_u8 (toInt_u8 a + toInt_u8 b)
@[inline] def sub_u8 (a b : UInt8) : M UInt8 := chk_u8 (toInt_u8 a - toInt_u8 b)
@[inline] def wrapping_sub_u8 (a b : UInt8) : UInt8 := ofInt_u8 (toInt_u8 a - toInt_u8 b)
@[inline] def mul_u8 (a b : UInt8) : M UInt8 := chk_u8 (toInt_u8 a * toInt_u8 b)
@[inline] def wrapping_mul_u8 (a b : UInt8) : UInt8 := ofInt_u8 (toInt_u8 a * toInt_u8 b)
@[inline] def neg_u8 (a : UInt8) : M UInt8 := chk_u8 (- toInt_u8 a)
@[inline] def div_u8 (a b : UInt8) : M UInt8 := if toInt_u8 b == 0 then .error .divzero else chk_u8 (Int.tdiv (toInt_u8 a) (toInt_u8 b))
@[inline] def rem_u8 (a b : UInt8) : M UInt8 := if toInt_u8 b == 0 then .error .divzero else chk_u8 (Int.tmod (toInt_u8 a) (toInt_u8 b))
@[inline] def shl_u8 (a : UInt8) (s : Int) : M UInt8 := if s < 0 || s >= 8 then .error .shift else .ok (ofInt_u8 (toInt_u8 a * (2:Int)^s.toNat))
@[inline] def shr_u8 (a : UInt8) (s : Int) : M UInt8 := if s < 0 || s >= 8 then .error .shift else .ok (ofInt_u8 (toInt_u8 a / (2:Int)^s.toNat))
@[inline] def wrapping_neg_u8 (a : UInt8) : UInt8 := ofInt_u8 (- toInt_u8 a)
@[inline] def wrapping_shr_u8 (a : UInt8) (s : UInt32) : UInt8 := ofInt_u8 (toInt_u8 a / (2:Int)^(s.toNat % 8))
@[inline] def wrapping_shl_u8 (a : UInt8) (s : UInt32) : UInt8 := ofInt_u8 (toInt_u8 a * (2:Int)^(s.toNat % 8))
@[inline] def checked_shl_u8 (a : UInt8) (s : UInt32) : Option UInt8 := if s.toNat >= 8 then none else some (ofInt_u8 (toInt_u8 a * (2:Int)^s.toNat))
@[inline] def cast_bool_u8 (b : Bool) : UInt8 := ofInt_u8 (if b then 1 else 0)
@[inline] def cast_enum_u8 (b : Enum) : UInt8 := ofInt_u8 b
def const_u8_BITS : UInt32 := 8
def const_u8_MAX : UInt8 := ofInt_u8 255
def const_u8_MIN : UInt8 := ofInt_u8 (0)
@[inline] def min_value_u8 : UInt8 := ofInt_u8 (0)
@[inline] def max_value_u8 : UInt8 := ofInt_u8 255
@[inline] def min_u8 (a b : UInt8) : UInt8 := if toInt_u8 b < toInt_u8 a then b else a
@[inline] def max_u8 (a b : UInt8) : UInt8 := if toInt_u8 b < toInt_u8 a then a else b
@[inline] def le_u8 (a b : UInt8) : Bool := decide (toInt_u8 a ≤ toInt_u8 b)
@[inline] def lt_u8 (a b : UInt8) : Bool := decide (toInt_u8 a < toInt_u8 b)
@[inline] def eq_u8 (a b : UInt8) : Bool := toInt_u8 a == toInt_u8 b
@[inline] def ne_u8 (a b : UInt8) : Bool := toInt_u8 a != toInt_u8 b
@[inline] def gt_u8 (a b : UInt8) : Bool := decide (toInt_u8 a > toInt_u8 b)
@[inline] def ge_u8 (a b : UInt8) : Bool := decide (toInt_u8 a ≥ toInt_u8 b)
@[inline] def cmp_u8 (a b : UInt8) : Enum := if toInt_u8 a < toInt_u8 b then 0 else if toInt_u8 a == toInt_u8 b then 1 else 2
@[inline] def partial_cmp_u8 (a b : UInt8) : Option Enum := some (cmp_u8 a b)
@[inline] def pow_u8 (a : UInt8) (e : UInt32) : M UInt8 := chk_u8 (toInt_u8 a ^ e.toNat)
@[inline] def leading_zeros_u8 (a : UInt8) : UInt32 := UInt32.ofNat (8 - (if toInt_u8 a == 0 then 0 else Nat.log2 ((toInt_u8 a % 256).toNat) + 1))
@[inline] def toInt_u16 (x : UInt16) : Int := (x.toNat : Int)
@[inline] def ofInt_u16 (i : Int) : UInt16 := UInt16.ofNat (i % 65536).toNat
@[inline] def chk_u16 (i : Int) : M UInt16 := if i < 0 || i > 65535 then .error .overflow else .ok (ofInt_u16 i)
@[inline] def add_u16 (a b : UInt16) : M UInt16 := chk_u16 (toInt_u16 a + toInt_u16 b)
@[inline] def wrapping_add_u16 (a b : UInt16) : UInt16 := ofInt_u16 (toInt_u16 a + toInt_u16 b)
@[inline] def sub_u16 (a b : UInt16) : M UInt16 := chk_u16 (toInt_u16 a - toInt_u16 b)
@[inline] def wrapping_sub_u16 (a b : UInt16) : UInt16 := ofInt_u16 (toInt_u16 a - toInt_u16 b)
@[inline] def mul_u16 (a b : UInt16) : M UInt16 := chk_u16 (toInt_u16 a * toInt_u16 b)
@[inline] def wrapping_mul_u16 (a b : UInt16) : UInt16 := ofInt_u16 (toInt_u16 a * toInt_u16 b)
@[inline] def neg_u16 (a : UInt16) : M UInt16 := chk_u16 (- toInt_u16 a)
@[inline] def div_u16 (a b : UInt16) : M UInt16 := if toInt_u16 b == 0 then .error .divzero else chk_u16 (Int.tdiv (toInt_u16 a) (toInt_u16 b))
@[inline] def rem_u16 (a b : UInt16) : M UInt16 := if toInt_u16 b == 0 then .error .divzero else chk_u16 (Int.tmod (toInt_u16 a) (toInt_u16 b))
@[inline] def shl_u16 (a : UInt16) (s : Int) : M UInt16 := if s < 0 || s >= 16 then .error .shift else .ok (ofInt_u16 (toInt_u16 a * (2:Int)^s.toNat))
@[inline] def shr_u16 (a : UInt16) (s : Int) : M UInt16 := if s < 0 || s >= 16 then .error .shift else .ok (ofInt_u16 (toInt_u16 a / (2:Int)^s.toNat))
@[inline] def wrapping_neg_u16 (a : UInt16) : UInt16 := ofInt_u16 (- toInt_u16 a)
@[inline] def wrapping_shr_u16 (a : UInt16) (s : UInt32) : UInt16 := ofInt_u16 (toInt_u16 a / (2:Int)^(s.toNat % 16))
@[inline] def wrapping_shl_u16 (a : UInt16) (s : UInt32) : UInt16 := ofInt_u16 (toInt_u16 a * (2:Int)^(s.toNat % 16))
@[inline] def checked_shl_u16 (a : UInt16) (s : UInt32) : Option UInt16 := if s.toNat >= 16 then none else some (ofInt_u16 (toInt_u16 a * (2:Int)^s.toNat))
@[inline] def cast_bool_u16 (b : Bool) : UInt16 := ofInt_u16 (if b then 1 else 0)
@[inline] def cast_enum_u16 (b : Enum) : UInt16 := ofInt_u16 b
def const_u16_BITS : UInt32 := 16
def const_u16_MAX : UInt16 := ofInt_u16 65535
def const_u16_MIN : UInt16 := ofInt_u16 (0)
@[inline] def min_value_u16 : UInt16 := ofInt_u16 (0)
@[inline] def max_value_u16 : UInt16 := ofInt_u16 65535
@[inline] def min_u16 (a b : UInt16) : UInt16 := if toInt_u16 b < toInt_u16 a then b else a
@[inline] def max_u16 (a b : UInt16) : UInt16 := if toInt_u16 b < toInt_u16 a then a else b
@[inline] def le_u16 (a b : UInt16) : Bool := decide (toInt_u16 a ≤ toInt_u16 b)
@[inline] def lt_u16 (a b : UInt16) : Bool := decide (toInt_u16 a < toInt_u16 b)
@[inline] def eq_u16 (a b : UInt16) : Bool := toInt_u16 a == toInt_u16 b
@[inline] def ne_u16 (a b : UInt16) : Bool := toInt_u16 a != toInt_u16 b
@[inline] def gt_u16 (a b : UInt16) : Bool := decide (toInt_u16 a > toInt_u16 b)
@[inline] def ge_u16 (a b : UInt16) : Bool := decide (toInt_u16 a ≥ toInt_u16 b)
@[inline] def cmp_u16 (a b : UInt16) : Enum := if toInt_u16 a < toInt_u16 b then 0 else if toInt_u16 a == toInt_u16 b then 1 else 2
@[inline] def partial_cmp_u16 (a b : UInt16) : Option Enum := some (cmp_u16 a b)
@[inline] def pow_u16 (a : UInt16) (e : UInt32) : M UInt16 := chk_u16 (toInt_u16 a ^ e.toNat)
@[inline] def leading_zeros_u16 (a : UInt16) : UInt32 := UInt32.ofNat (16 - (if toInt_u16 a == 0 then 0 else Nat.log2 ((toInt_u16 a % 65536).toNat) + 1))
@[inline] def toInt_u32 (x : UInt32) : Int := (x.toNat : Int)
@[inline] def ofInt_u32 (i : Int) : UInt32 := UInt32.ofNat (i % 4294967296).toNat
@[inline] def chk_u32 (i : Int) : M UInt32 := if i < 0 || i > 4294967295 then .error .overflow else .ok (ofInt_u32 i)
@[inline] def add_u32 (a b : UInt32) : M UInt32 := chk_u32 (toInt_u32 a + toInt_u32 b)
@[inline] def wrapping_add_u32 (a b : UInt32) : UInt32 := ofInt_u32 (toInt_u32 a + toInt_u32 b)
@[inline] def sub_u32 (a b : UInt32) : M UInt32 := chk_u32 (toInt_u32 a - toInt_u32 b)
@[inline] def wrapping_sub_u32 (a b : UInt32) : UInt32 := ofInt_u32 (toInt_u32 a - toInt_u32 b)
@[inline] def mul_u32 (a b : UInt32) : M UInt32 := chk_u32 (toInt_u32 a * toInt_u32 b)
@[inline] def wrapping_mul_u32 (a b : UInt32) : UInt32 := ofInt_u32 (toInt_u32 a * toInt_u32 b)
@[inline] def neg_u32 (a : UInt32) : M UInt32 := chk_u32 (- toInt_u32 a)
@[inline] def div_u32 (a b : UInt32) : M UInt32 := if toInt_u32 b == 0 then .error .divzero else chk_u32 (Int.tdiv (toInt_u32 a) (toInt_u32 b))
@[inline] def rem_u32 (a b : UInt32) : M UInt32 := if toInt_u32 b == 0 then .error .divzero else chk_u32 (Int.tmod (toInt_u32 a) (toInt_u32 b))
@[inline] def shl_u32 (a : UInt32) (s : Int) : M UInt32 := if s < 0 || s >= 32 then .error .shift else .ok (ofInt_u32 (toInt_u32 a * (2:Int)^s.toNat))
@[inline] def shr_u32 (a : UInt32) (s : Int) : M UInt32 := if s < 0 || s >= 32 then .error .shift else .ok (ofInt_u32 (toInt_u32 a / (2:Int)^s.toNat))
@[inline] def wrapping_neg_u32 (a : UInt32) : UInt32 := ofInt_u32 (- toInt_u32 a)
@[inline] def wrapping_shr_u32 (a : UInt32) (s : UInt32) : UInt32 := ofInt_u32 (toInt_u32 a / (2:Int)^(s.toNat % 32))
@[inline] def wrapping_shl_u32 (a : UInt32) (s : UInt32) : UInt32 := ofInt_u32 (toInt_u32 a * (2:Int)^(s.toNat % 32))
@[inline] def checked_shl_u32 (a : UInt32) (s : UInt32) : Option UInt32 := if s.toNat >= 32 then none else some (ofInt_u32 (toInt_u32 a * (2:Int)^s.toNat))
@[inline] def cast_bool_u32 (b : Bool) : UInt32 := ofInt_u32 (if b then 1 else 0)
@[inline] def cast_enum_u32 (b : Enum) : UInt32 := ofInt_u32 b
def const_u32_BITS : UInt32 := 32
def const_u32_MAX : UInt32 := ofInt_u32 4294967295
def const_u32_MIN : UInt32 := ofInt_u32 (0)
@[inline] def min_value_u32 : UInt32 := ofInt_u32 (0)
@[inline] def max_value_u32 : UInt32 := ofInt_u32 4294967295
@[inline] def min_u32 (a b : UInt32) : UInt32 := if toInt_u32 b < toInt_u32 a then b else a
@[inline] def max_u32 (a b : UInt32) : UInt32 := if toInt_u32 b < toInt_u32 a then a else b
@[inline] def le_u32 (a b : UInt32) : Bool := decide (toInt_u32 a ≤ toInt_u32 b)
@[inline] def lt_u32 (a b : UInt32) : Bool := decide (toInt_u32 a < toInt_u32 b)
@[inline] def eq_u32 (a b : UInt32) : Bool := toInt_u32 a == toInt_u32 b
@[inline] def ne_u32 (a b : UInt32) : Bool := toInt_u32 a != toInt_u32 b
@[inline] def gt_u32 (a b : UInt32) : Bool := decide (toInt_u32 a > toInt_u32 b)
@[inline] def ge_u32 (a b : UInt32) : Bool := decide (toInt_u32 a ≥ toInt_u32 b)
@[inline] def cmp_u32 (a b : UInt32) : Enum := if toInt_u32 a < toInt_u32 b then 0 else if toInt_u32 a == toInt_u32 b then 1 else 2
@[inline] def partial_cmp_u32 (a b : UInt32) : Option Enum := some (cmp_u32 a b)
@[inline] def pow_u32 (a : UInt32) (e : UInt32) : M UInt32 := chk_u32 (toInt_u32 a ^ e.toNat)
@[inline] def leading_zeros_u32 (a : UInt32) : UInt32 := UInt32.ofNat (32 - (if toInt_u32 a == 0 then 0 else Nat.log2 ((toInt_u32 a % 4294967296).toNat) + 1))
@[inline] def toInt_u64 (x : UInt64) : Int := (x.toNat : Int)
@[inline] def ofInt_u64 (i : Int) : UInt64 := UInt64.ofNat (i % 18446744073709551616).toNat
@[inline] def chk_u64 (i : Int) : M UInt64 := if i < 0 || i > 18446744073709551615 then .error .overflow else .ok (ofInt_u64 i)
@[inline] def add_u64 (a b : UInt64) : M UInt64 := chk_u64 (toInt_u64 a + toInt_u64 b)
@[inline] def wrapping_add_u64 (a b : UInt64) : UInt64 := ofInt_u64 (toInt_u64 a + toInt_u64 b)
@[inline] def sub_u64 (a b : UInt64) : M UInt64 := chk_u64 (toInt_u64 a - toInt_u64 b)
@[inline] def wrapping_sub_u64 (a b : UInt64) : UInt64 := ofInt_u64 (toInt_u64 a - toInt_u64 b)
@[inline] def mul_u64 (a b : UInt64) : M UInt64 := chk_u64 (toInt_u64 a * toInt_u64 b)
@[inline] def wrapping_mul_u64 (a b : UInt64) : UInt64 := ofInt_u64 (toInt_u64 a * toInt_u64 b)
@[inline] def neg_u64 (a : UInt64) : M UInt64 := chk_u64 (- toInt_u64 a)
@[inline] def div_u64 (a b : UInt64) : M UInt64 := if toInt_u64 b == 0 then .error .divzero else chk_u64 (Int.tdiv (toInt_u64 a) (toInt_u64 b))
@[inline] def rem_u64 (a b : UInt64) : M UInt64 := if toInt_u64 b == 0 then .error .divzero else chk_u64 (Int.tmod (toInt_u64 a) (toInt_u64 b))
@[inline] def shl_u64 (a : UInt64) (s : Int) : M UInt64 := if s < 0 || s >= 64 then .error .shift else .ok (ofInt_u64 (toInt_u64 a * (2:Int)^s.toNat))
@[inline] def shr_u64 (a : UInt64) (s : Int) : M UInt64 := if s < 0 || s >= 64 then .error .shift else .ok (ofInt_u64 (toInt_u64 a / (2:Int)^s.toNat))
@[inline] def wrapping_neg_u64 (a : UInt64) : UInt64 := ofInt_u64 (- toInt_u64 a)
@[inline] def wrapping_shr_u64 (a : UInt64) (s : UInt32) : UInt64 := ofInt_u64 (toInt_u64 a / (2:Int)^(s.toNat % 64))
@[inline] def wrapping_shl_u64 (a : UInt64) (s : UInt32) : UInt64 := ofInt_u64 (toInt_u64 a * (2:Int)^(s.toNat % 64))
@[inline] def checked_shl_u64 (a : UInt64) (s : UInt32) : Option UInt64 := if s.toNat >= 64 then none else some (ofInt_u64 (toInt_u64 a * (2:Int)^s.toNat))
@[inline] def cast_bool_u64 (b : Bool) : UInt64 := ofInt_u64 (if b then 1 else 0)
@[inline] def cast_enum_u64 (b : Enum) : UInt64 := ofInt_u64 b
def const_u64_BITS : UInt32 := 64
def const_u64_MAX : UInt64 := ofInt_u64 18446744073709551615
def const_u64_MIN : UInt64 := ofInt_u64 (0)
@[inline] def min_value_u64 : UInt64 := ofInt_u64 (0)
@[inline] def max_value_u64 : UInt64 := ofInt_u64 18446744073709551615
@[inline] def min_u64 (a b : UInt64) : UInt64 := if toInt_u64 b < toInt_u64 a then b else a
@[inline] def max_u64 (a b : UInt64) : UInt64 := if toInt_u64 b < toInt_u64 a then a else b
@[inline] def le_u64 (a b : UInt64) : Bool := decide (toInt_u64 a ≤ toInt_u64 b)
@[inline] def lt_u64 (a b : UInt64) : Bool := decide (toInt_u64 a < toInt_u64 b)
@[inline] def eq_u64 (a b : UInt64) : Bool := toInt_u64 a == toInt_u64 b
@[inline] def ne_u64 (a b : UInt64) : Bool := toInt_u64 a != toInt_u64 b
@[inline] def gt_u64 (a b : UInt64) : Bool := decide (toInt_u64 a > toInt_u64 b)
@[inline] def ge_u64 (a b : UInt64) : Bool := decide (toInt_u64 a ≥ toInt_u64 b)
@[inline] def cmp_u64 (a b : UInt64) : Enum := if toInt_u64 a < toInt_u64 b then 0 else if toInt_u64 a == toInt_u64 b then 1 else 2
@[inline] def partial_cmp_u64 (a b : UInt64) : Option Enum := some (cmp_u64 a b)
@[inline] def pow_u64 (a : UInt64) (e : UInt32) : M UInt64 := chk_u64 (toInt_u64 a ^ e.toNat)
@[inline] def leading_zeros_u64 (a : UInt64) : UInt32 := UInt32.ofNat (64 - (if toInt_u64 a == 0 then 0 else Nat.log2 ((toInt_u64 a % 18446744073709551616).toNat) + 1))
@[inline] def toInt_usize (x : UInt64) : Int := (x.toNat : Int)
@[inline] def ofInt_usize (i : Int) : UInt64 := UInt64.ofNat (i % 18446744073709551616).toNat
@[inline] def chk_usize (i : Int) : M UInt64 := if i < 0 || i > 18446744073709551615 then .error .overflow else .ok (ofInt_usize i)
@[inline] def add_usize (a b : UInt64) : M UInt64 := chk_usize (toInt_usize a + toInt_usize b)
@[inline] def wrapping_add_usize (a b : UInt64) : UInt64 := ofInt_usize (toInt_usize a + toInt_usize b)
@[inline] def sub_usize (a b : UInt64) : M UInt64 := chk_usize (toInt_usize a - toInt_usize b)
@[inline] def wrapping_sub_usize (a b : UInt64) : UInt64 := ofInt_usize (toInt_usize a - toInt_usize b)
@[inline] def mul_usize (a b : UInt64) : M UInt64 := chk_usize (toInt_usize a * toInt_usize b)
@[inline] def wrapping_mul_usize (a b : UInt64) : UInt64 := ofInt_usize (toInt_usize a * toInt_usize b)
@[inline] def neg_usize (a : UInt64) : M UInt64 := chk_usize (- toInt_usize a)
@[inline] def div_usize (a b : UInt64) : M UInt64 := if toInt_usize b == 0 then .error .divzero else chk_usize (Int.tdiv (toInt_usize a) (toInt_usize b))
@[inline] def rem_usize (a b : UInt64) : M UInt64 := if toInt_usize b == 0 then .error .divzero else chk_usize (Int.tmod (toInt_usize a) (toInt_usize b))
@[inline] def shl_usize (a : UInt64) (s : Int) : M UInt64 := if s < 0 || s >= 64 then .error .shift else .ok (ofInt_usize (toInt_usize a * (2:Int)^s.toNat))
@[inline] def shr_usize (a : UInt64) (s : Int) : M UInt64 := if s < 0 || s >= 64 then .error .shift else .ok (ofInt_usize (toInt_usize a / (2:Int)^s.toNat))
@[inline] def wrapping_neg_usize (a : UInt64) : UInt64 := ofInt_usize (- toInt_usize a)
@[inline] def wrapping_shr_usize (a : UInt64) (s : UInt32) : UInt64 := ofInt_usize (toInt_usize a / (2:Int)^(s.toNat % 64))
@[inline] def wrapping_shl_usize (a : UInt64) (s : UInt32) : UInt64 := ofInt_usize (toInt_usize a * (2:Int)^(s.toNat % 64))
@[inline] def checked_shl_usize (a : UInt64) (s : UInt32) : Option UInt64 := if s.toNat >= 64 then none else some (ofInt_usize (toInt_usize a * (2:Int)^s.toNat))
@[inline] def cast_bool_usize (b : Bool) : UInt64 := ofInt_usize (if b then 1 else 0)
@[inline] def cast_enum_usize (b : Enum) : UInt64 := ofInt_usize b
def const_usize_BITS : UInt32 := 64
def const_usize_MAX : UInt64 := ofInt_usize 18446744073709551615
def const_usize_MIN : UInt64 := ofInt_usize (0)
@[inline] def min_value_usize : UInt64 := ofInt_usize (0)
@[inline] def max_value_usize : UInt64 := ofInt_usize 18446744073709551615
@[inline] def min_usize (a b : UInt64) : UInt64 := if toInt_usize b < toInt_usize a then b else a
@[inline] def max_usize (a b : UInt64) : UInt64 := if toInt_usize b < toInt_usize a then a else b
@[inline] def le_usize (a b : UInt64) : Bool := decide (toInt_usize a ≤ toInt_usize b)
@[inline] def lt_usize (a b : UInt64) : Bool := decide (toInt_usize a < toInt_usize b)
@[inline] def eq_usize (a b : UInt64) : Bool := toInt_usize a == toInt_usize b
@[inline] def ne_usize (a b : UInt64) : Bool := toInt_usize a != toInt_usize b
@[inline] def gt_usize (a b : UInt64) : Bool := decide (toInt_usize a > toInt_usize b)
@[inline] def ge_usize (a b : UInt64) : Bool := decide (toInt_usize a ≥ toInt_usize b)
@[inline] def cmp_usize (a b : UInt64) : Enum := if toInt_usize a < toInt_usize b then 0 else if toInt_usize a == toInt_usize b then 1 else 2
@[inline] def partial_cmp_usize (a b : UInt64) : Option Enum := some (cmp_usize a b)
@[inline] def pow_usize (a : UInt64) (e : UInt32) : M UInt64 := chk_usize (toInt_usize a ^ e.toNat)
@[inline] def leading_zeros_usize (a : UInt64) : UInt32 := UInt32.ofNat (64 - (if toInt_usize a == 0 then 0 else Nat.log2 ((toInt_usize a % 18446744073709551616).toNat) + 1))
@[inline] def toInt_i8 (x : Int8) : Int := x.toInt
@[inline] def ofInt_i8 (i : Int) : Int8 := Int8.ofInt i
@[inline] def chk_i8 (i : Int) : M Int8 := if i < -128 || i > 127 then .error .overflow else .ok (ofInt_i8 i)
@[inline] def add_i8 (a b : Int8) : M Int8 := chk_i8 (toInt_i8 a + toInt_i8 b)
@[inline] def wrapping_add_i8 (a b : Int8) : Int8 := ofInt_i8 (toInt_i8 a + toInt_i8 b)
@[inline] def sub_i8 (a b : Int8) : M Int8 := chk_i8 (toInt_i8 a - toInt_i8 b)
@[inline] def wrapping_sub_i8 (a b : Int8) : Int8 := ofInt_i8 (toInt_i8 a - toInt_i8 b)
@[inline] def mul_i8 (a b : Int8) : M Int8 := chk_i8 (toInt_i8 a * toInt_i8 b)
@[inline] def wrapping_mul_i8 (a b : Int8) : Int8 := ofInt_i8 (toInt_i8 a * toInt_i8 b)
@[inline] def neg_i8 (a : Int8) : M Int8 := chk_i8 (- toInt_i8 a)
@[inline] def div_i8 (a b : Int8) : M Int8 := if toInt_i8 b == 0 then .error .divzero else chk_i8 (Int.tdiv (toInt_i8 a) (toInt_i8 b))
@[inline] def rem_i8 (a b : Int8) : M Int8 := if toInt_i8 b == 0 then .error .divzero else chk_i8 (Int.tmod (toInt_i8 a) (toInt_i8 b))
@[inline] def shl_i8 (a : Int8) (s : Int) : M Int8 := if s < 0 || s >= 8 then .error .shift else .ok (ofInt_i8 (toInt_i8 a * (2:Int)^s.toNat))
@[inline] def shr_i8 (a : Int8) (s : Int) : M Int8 := if s < 0 || s >= 8 then .error .shift else .ok (ofInt_i8 (toInt_i8 a / (2:Int)^s.toNat))
@[inline] def wrapping_neg_i8 (a : Int8) : Int8 := ofInt_i8 (- toInt_i8 a)
@[inline] def wrapping_shr_i8 (a : Int8) (s : UInt32) : Int8 := ofInt_i8 (toInt_i8 a / (2:Int)^(s.toNat % 8))
@[inline] def wrapping_shl_i8 (a : Int8) (s : UInt32) : Int8 := ofInt_i8 (toInt_i8 a * (2:Int)^(s.toNat % 8))
@[inline] def checked_shl_i8 (a : Int8) (s : UInt32) : Option Int8 := if s.toNat >= 8 then none else some (ofInt_i8 (toInt_i8 a * (2:Int)^s.toNat))
@[inline] def cast_bool_i8 (b : Bool) : Int8 := ofInt_i8 (if b then 1 else 0)
@[inline] def cast_enum_i8 (b : Enum) : Int8 := ofInt_i8 b
def const_i8_BITS : UInt32 := 8
def const_i8_MAX : Int8 := ofInt_i8 127
def const_i8_MIN : Int8 := ofInt_i8 (-128)
@[inline] def min_value_i8 : Int8 := ofInt_i8 (-128)
@[inline] def max_value_i8 : Int8 := ofInt_i8 127
@[inline] def min_i8 (a b : Int8) : Int8 := if toInt_i8 b < toInt_i8 a then b else a
@[inline] def max_i8 (a b : Int8) : Int8 := if toInt_i8 b < toInt_i8 a then a else b
@[inline] def le_i8 (a b : Int8) : Bool := decide (toInt_i8 a ≤ toInt_i8 b)
@[inline] def lt_i8 (a b : Int8) : Bool := decide (toInt_i8 a < toInt_i8 b)
@[inline] def eq_i8 (a b : Int8) : Bool := toInt_i8 a == toInt_i8 b
@[inline] def ne_i8 (a b : Int8) : Bool := toInt_i8 a != toInt_i8 b
@[inline] def gt_i8 (a b : Int8) : Bool := decide (toInt_i8 a > toInt_i8 b)
@[inline] def ge_i8 (a b : Int8) : Bool := decide (toInt_i8 a ≥ toInt_i8 b)
@[inline] def cmp_i8 (a b : Int8) : Enum := if toInt_i8 a < toInt_i8 b then 0 else if toInt_i8 a == toInt_i8 b then 1 else 2
@[inline] def partial_cmp_i8 (a b : Int8) : Option Enum := some (cmp_i8 a b)
@[inline] def pow_i8 (a : Int8) (e : UInt32) : M Int8 := chk_i8 (toInt_i8 a ^ e.toNat)
@[inline] def abs_i8 (a : Int8) : M Int8 := chk_i8 (Int.natAbs (toInt_i8 a))
@[inline] def signum_i8 (a : Int8) : Int8 := ofInt_i8 (Int.sign (toInt_i8 a))
@[inline] def is_negative_i8 (a : Int8) : Bool := decide (toInt_i8 a < 0)
@[inline] def leading_zeros_i8 (a : Int8) : UInt32 := UInt32.ofNat (8 - (if toInt_i8 a == 0 then 0 else Nat.log2 ((toInt_i8 a % 256).toNat) + 1))
@[inline] def toInt_i16 (x : Int16) : Int := x.toInt
@[inline] def ofInt_i16 (i : Int) : Int16 := Int16.ofInt i
@[inline] def chk_i16 (i : Int) : M Int16 := if i < -32768 || i > 32767 then .error .overflow else .ok (ofInt_i16 i)
@[inline] def add_i16 (a b : Int16) : M Int16 := chk_i16 (toInt_i16 a + toInt_i16 b)
@[inline] def wrapping_add_i16 (a b : Int16) : Int16 := ofInt_i16 (toInt_i16 a + toInt_i16 b)
@[inline] def sub_i16 (a b : Int16) : M Int16 := chk_i16 (toInt_i16 a - toInt_i16 b)
@[inline] def wrapping_sub_i16 (a b : Int16) : Int16 := ofInt_i16 (toInt_i16 a - toInt_i16 b)
@[inline] def mul_i16 (a b : Int16) : M Int16 := chk_i16 (toInt_i16 a * toInt_i16 b)
@[inline] def wrapping_mul_i16 (a b : Int16) : Int16 := ofInt_i16 (toInt_i16 a * toInt_i16 b)
@[inline] def neg_i16 (a : Int16) : M Int16 := chk_i16 (- toInt_i16 a)
@[inline] def div_i16 (a b : Int16) : M Int16 := if toInt_i16 b == 0 then .error .divzero else chk_i16 (Int.tdiv (toInt_i16 a) (toInt_i16 b))
@[inline] def rem_i16 (a b : Int16) : M Int16 := if toInt_i16 b == 0 then .error .divzero else chk_i16 (Int.tmod (toInt_i16 a) (toInt_i16 b))
@[inline] def shl_i16 (a : Int16) (s : Int) : M Int16 := if s < 0 || s >= 16 then .error .shift else .ok (ofInt_i16 (toInt_i16 a * (2:Int)^s.toNat))
@[inline] def shr_i16 (a : Int16) (s : Int) : M Int16 := if s < 0 || s >= 16 then .error .shift else .ok (ofInt_i16 (toInt_i16 a / (2:Int)^s.toNat))
@[inline] def wrapping_neg_i16 (a : Int16) : Int16 := ofInt_i16 (- toInt_i16 a)
@[inline] def wrapping_shr_i16 (a : Int16) (s : UInt32) : Int16 := ofInt_i16 (toInt_i16 a / (2:Int)^(s.toNat % 16))
@[inline] def wrapping_shl_i16 (a : Int16) (s : UInt32) : Int16 := ofInt_i16 (toInt_i16 a * (2:Int)^(s.toNat % 16))
@[inline] def checked_shl_i16 (a : Int16) (s : UInt32) : Option Int16 := if s.toNat >= 16 then none else some (ofInt_i16 (toInt_i16 a * (2:Int)^s.toNat))
@[inline] def cast_bool_i16 (b : Bool) : Int16 := ofInt_i16 (if b then 1 else 0)
@[inline] def cast_enum_i16 (b : Enum) : Int16 := ofInt_i16 b
def const_i16_BITS : UInt32 := 16
def const_i16_MAX : Int16 := ofInt_i16 32767
def const_i16_MIN : Int16 := ofInt_i16 (-32768)
@[inline] def min_value_i16 : Int16 := ofInt_i16 (-32768)
@[inline] def max_value_i16 : Int16 := ofInt_i16 32767
@[inline] def min_i16 (a b : Int16) : Int16 := if toInt_i16 b < toInt_i16 a then b else a
@[inline] def max_i16 (a b : Int16) : Int16 := if toInt_i16 b < toInt_i16 a then a else b
@[inline] def le_i16 (a b : Int16) : Bool := decide (toInt_i16 a ≤ toInt_i16 b)
@[inline] def lt_i16 (a b : Int16) : Bool := decide (toInt_i16 a < toInt_i16 b)
@[inline] def eq_i16 (a b : Int16) : Bool := toInt_i16 a == toInt_i16 b
@[inline] def ne_i16 (a b : Int16) : Bool := toInt_i16 a != toInt_i16 b
@[inline] def gt_i16 (a b : Int16) : Bool := decide (toInt_i16 a > toInt_i16 b)
@[inline] def ge_i16 (a b : Int16) : Bool := decide (toInt_i16 a ≥ toInt_i16 b)
@[inline] def cmp_i16 (a b : Int16) : Enum := if toInt_i16 a < toInt_i16 b then 0 else if toInt_i16 a == toInt_i16 b then 1 else 2
@[inline] def partial_cmp_i16 (a b : Int16) : Option Enum := some (cmp_i16 a b)
@[inline] def pow_i16 (a : Int16) (e : UInt32) : M Int16 := chk_i16 (toInt_i16 a ^ e.toNat)
@[inline] def abs_i16 (a : Int16) : M Int16 := chk_i16 (Int.natAbs (toInt_i16 a))
@[inline] def signum_i16 (a : Int16) : Int16 := ofInt_i16 (Int.sign (toInt_i16 a))
@[inline] def is_negative_i16 (a : Int16) : Bool := decide (toInt_i16 a < 0)
@[inline] def leading_zeros_i16 (a : Int16) : UInt32 := UInt32.ofNat (16 - (if toInt_i16 a == 0 then 0 else Nat.log2 ((toInt_i16 a % 65536).toNat) + 1))
@[inline] def toInt_i32 (x : Int32) : Int := x.toInt
@[inline] def ofInt_i32 (i : Int) : Int32 := Int32.ofInt i
@[inline] def chk_i32 (i : Int) : M Int32 := if i < -2147483648 || i > 2147483647 then .error .overflow else .ok (ofInt_i32 i)
@[inline] def add_i32 (a b : Int32) : M Int32 := chk_i32 (toInt_i32 a + toInt_i32 b)
@[inline] def wrapping_add_i32 (a b : Int32) : Int32 := ofInt_i32 (toInt_i32 a + toInt_i32 b)
@[inline] def sub_i32 (a b : Int32) : M Int32 := chk_i32 (toInt_i32 a - toInt_i32 b)
@[inline] def wrapping_sub_i32 (a b : Int32) : Int32 := ofInt_i32 (toInt_i32 a - toInt_i32 b)
@[inline] def mul_i32 (a b : Int32) : M Int32 := chk_i32 (toInt_i32 a * toInt_i32 b)
@[inline] def wrapping_mul_i32 (a b : Int32) : Int32 := ofInt_i32 (toInt_i32 a * toInt_i32 b)
@[inline] def neg_i32 (a : Int32) : M Int32 := chk_i32 (- toInt_i32 a)
@[inline] def div_i32 (a b : Int32) : M Int32 := if toInt_i32 b == 0 then .error .divzero else chk_i32 (Int.tdiv (toInt_i32 a) (toInt_i32 b))
@[inline] def rem_i32 (a b : Int32) : M Int32 := if toInt_i32 b == 0 then .error .divzero else chk_i32 (Int.tmod (toInt_i32 a) (toInt_i32 b))
@[inline] def shl_i32 (a : Int32) (s : Int) : M Int32 := if s < 0 || s >= 32 then .error .shift else .ok (ofInt_i32 (toInt_i32 a * (2:Int)^s.toNat))
@[inline] def shr_i32 (a : Int32) (s : Int) : M Int32 := if s < 0 || s >= 32 then .error .shift else .ok (ofInt_i32 (toInt_i32 a / (2:Int)^s.toNat))
@[inline] def wrapping_neg_i32 (a : Int32) : Int32 := ofInt_i32 (- toInt_i32 a)
@[inline] def wrapping_shr_i32 (a : Int32) (s : UInt32) : Int32 := ofInt_i32 (toInt_i32 a / (2:Int)^(s.toNat % 32))
@[inline] def wrapping_shl_i32 (a : Int32) (s : UInt32) : Int32 := ofInt_i32 (toInt_i32 a * (2:Int)^(s.toNat % 32))
@[inline] def checked_shl_i32 (a : Int32) (s : UInt32) : Option Int32 := if s.toNat >= 32 then none else some (ofInt_i32 (toInt_i32 a * (2:Int)^s.toNat))
@[inline] def cast_bool_i32 (b : Bool) : Int32 := ofInt_i32 (if b then 1 else 0)
@[inline] def cast_enum_i32 (b : Enum) : Int32 := ofInt_i32 b
def const_i32_BITS : UInt32 := 32
def const_i32_MAX : Int32 := ofInt_i32 2147483647
def const_i32_MIN : Int32 := ofInt_i32 (-2147483648)
@[inline] def min_value_i32 : Int32 := ofInt_i32 (-2147483648)
@[inline] def max_value_i32 : Int32 := ofInt_i32 2147483647
@[inline] def min_i32 (a b : Int32) : Int32 := if toInt_i32 b < toInt_i32 a then b else a
@[inline] def max_i32 (a b : Int32) : Int32 := if toInt_i32 b < toInt_i32 a then a else b
@[inline] def le_i32 (a b : Int32) : Bool := decide (toInt_i32 a ≤ toInt_i32 b)
@[inline] def lt_i32 (a b : Int32) : Bool := decide (toInt_i32 a < toInt_i32 b)
@[inline] def eq_i32 (a b : Int32) : Bool := toInt_i32 a == toInt_i32 b
@[inline] def ne_i32 (a b : Int32) : Bool := toInt_i32 a != toInt_i32 b
@[inline] def gt_i32 (a b : Int32) : Bool := decide (toInt_i32 a > toInt_i32 b)
@[inline] def ge_i32 (a b : Int32) : Bool := decide (toInt_i32 a ≥ toInt_i32 b)
@[inline] def cmp_i32 (a b : Int32) : Enum := if toInt_i32 a < toInt_i32 b then 0 else if toInt_i32 a == toInt_i32 b then 1 else 2
@[inline] def partial_cmp_i32 (a b : Int32) : Option Enum := some (cmp_i32 a b)
@[inline] def pow_i32 (a : Int32) (e : UInt32) : M Int32 := chk_i32 (toInt_i32 a ^ e.toNat)
@[inline] def abs_i32 (a : Int32) : M Int32 := chk_i32 (Int.natAbs (toInt_i32 a))
@[inline] def signum_i32 (a : Int32) : Int32 := ofInt_i32 (Int.sign (toInt_i32 a))
@[inline] def is_negative_i32 (a : Int32) : Bool := decide (toInt_i32 a < 0)
@[inline] def leading_zeros_i32 (a : Int32) : UInt32 := UInt32.ofNat (32 - (if toInt_i32 a == 0 then 0 else Nat.log2 ((toInt_i32 a % 4294967296).toNat) + 1))
@[inline] def toInt_i64 (x : Int64) : Int := x.toInt
@[inline] def ofInt_i64 (i : Int) : Int64 := Int64.ofInt i
@[inline] def chk_i64 (i : Int) : M Int64 := if i < -9223372036854775808 || i > 9223372036854775807 then .error .overflow else .ok (ofInt_i64 i)
@[inline] def add_i64 (a b : Int64) : M Int64 := chk_i64 (toInt_i64 a + toInt_i64 b)
@[inline] def wrapping_add_i64 (a b : Int64) : Int64 := ofInt_i64 (toInt_i64 a + toInt_i64 b)
@[inline] def sub_i64 (a b : Int64) : M Int64 := chk_i64 (toInt_i64 a - toInt_i64 b)
@[inline] def wrapping_sub_i64 (a b : Int64) : Int64 := ofInt_i64 (toInt_i64 a - toInt_i64 b)
@[inline] def mul_i64 (a b : Int64) : M Int64 := chk_i64 (toInt_i64 a * toInt_i64 b)
@[inline] def wrapping_mul_i64 (a b : Int64) : Int64 := ofInt_i64 (toInt_i64 a * toInt_i64 b)
@[inline] def neg_i64 (a : Int64) : M Int64 := chk_i64 (- toInt_i64 a)
@[inline] def div_i64 (a b : Int64) : M Int64 := if toInt_i64 b == 0 then .error .divzero else chk_i64 (Int.tdiv (toInt_i64 a) (toInt_i64 b))
@[inline] def rem_i64 (a b : Int64) : M Int64 := if toInt_i64 b == 0 then .error .divzero else chk_i64 (Int.tmod (toInt_i64 a) (toInt_i64 b))
@[inline] def shl_i64 (a : Int64) (s : Int) : M Int64 := if s < 0 || s >= 64 then .error .shift else .ok (ofInt_i64 (toInt_i64 a * (2:Int)^s.toNat))
@[inline] def shr_i64 (a : Int64) (s : Int) : M Int64 := if s < 0 || s >= 64 then .error .shift else .ok (ofInt_i64 (toInt_i64 a / (2:Int)^s.toNat))
@[inline] def wrapping_neg_i64 (a : Int64) : Int64 := ofInt_i64 (- toInt_i64 a)
@[inline] def wrapping_shr_i64 (a : Int64) (s : UInt32) : Int64 := ofInt_i64 (toInt_i64 a / (2:Int)^(s.toNat % 64))
@[inline] def wrapping_shl_i64 (a : Int64) (s : UInt32) : Int64 := ofInt_i64 (toInt_i64 a * (2:Int)^(s.toNat % 64))
@[inline] def checked_shl_i64 (a : Int64) (s : UInt32) : Option Int64 := if s.toNat >= 64 then none else some (ofInt_i64 (toInt_i64 a * (2:Int)^s.toNat))
@[inline] def cast_bool_i64 (b : Bool) : Int64 := ofInt_i64 (if b then 1 else 0)
@[inline] def cast_enum_i64 (b : Enum) : Int64 := ofInt_i64 b
def const_i64_BITS : UInt32 := 64
def const_i64_MAX : Int64 := ofInt_i64 9223372036854775807
def const_i64_MIN : Int64 := ofInt_i64 (-9223372036854775808)
@[inline] def min_value_i64 : Int64 := ofInt_i64 (-9223372036854775808)
@[inline] def max_value_i64 : Int64 := ofInt_i64 9223372036854775807
@[inline] def min_i64 (a b : Int64) : Int64 := if toInt_i64 b < toInt_i64 a then b else a
@[inline] def max_i64 (a b : Int64) : Int64 := if toInt_i64 b < toInt_i64 a then a else b
@[inline] def le_i64 (a b : Int64) : Bool := decide (toInt_i64 a ≤ toInt_i64 b)
@[inline] def lt_i64 (a b : Int64) : Bool := decide (toInt_i64 a < toInt_i64 b)
@[inline] def eq_i64 (a b : Int64) : Bool := toInt_i64 a == toInt_i64 b
@[inline] def ne_i64 (a b : Int64) : Bool := toInt_i64 a != toInt_i64 b
@[inline] def gt_i64 (a b : Int64) : Bool := decide (toInt_i64 a > toInt_i64 b)
@[inline] def ge_i64 (a b : Int64) : Bool := decide (toInt_i64 a ≥ toInt_i64 b)
@[inline] def cmp_i64 (a b : Int64) : Enum := if toInt_i64 a < toInt_i64 b then 0 else if toInt_i64 a == toInt_i64 b then 1 else 2
@[inline] def partial_cmp_i64 (a b : Int64) : Option Enum := some (cmp_i64 a b)
@[inline] def pow_i64 (a : Int64) (e : UInt32) : M Int64 := chk_i64 (toInt_i64 a ^ e.toNat)
@[inline] def abs_i64 (a : Int64) : M Int64 := chk_i64 (Int.natAbs (toInt_i64 a))
@[inline] def signum_i64 (a : Int64) : Int64 := ofInt_i64 (Int.sign (toInt_i64 a))
@[inline] def is_negative_i64 (a : Int64) : Bool := decide (toInt_i64 a < 0)
@[inline] def leading_zeros_i64 (a : Int64) : UInt32 := UInt32.ofNat (64 - (if toInt_i64 a == 0 then 0 else Nat.log2 ((toInt_i64 a % 18446744073709551616).toNat) + 1))
@[inline] def toInt_isize (x : Int64) : Int := x.toInt
@[inline] def ofInt_isize (i : Int) : Int64 := Int64.ofInt i
@[inline] def chk_isize (i : Int) : M Int64 := if i < -9223372036854775808 || i > 9223372036854775807 then .error .overflow else .ok (ofInt_isize i)
@[inline] def add_isize (a b : Int64) : M Int64 := chk_isize (toInt_isize a + toInt_isize b)
@[inline] def wrapping_add_isize (a b : Int64) : Int64 := ofInt_isize (toInt_isize a + toInt_isize b)
@[inline] def sub_isize (a b : Int64) : M Int64 := chk_isize (toInt_isize a - toInt_isize b)
@[inline] def wrapping_sub_isize (a b : Int64) : Int64 := ofInt_isize (toInt_isize a - toInt_isize b)
@[inline] def mul_isize (a b : Int64) : M Int64 := chk_isize (toInt_isize a * toInt_isize b)
@[inline] def wrapping_mul_isize (a b : Int64) : Int64 := ofInt_isize (toInt_isize a * toInt_isize b)
@[inline] def neg_isize (a : Int64) : M Int64 := chk_isize (- toInt_isize a)
@[inline] def div_isize (a b : Int64) : M Int64 := if toInt_isize b == 0 then .error .divzero else chk_isize (Int.tdiv (toInt_isize a) (toInt_isize b))
@[inline] def rem_isize (a b : Int64) : M Int64 := if toInt_isize b == 0 then .error .divzero else chk_isize (Int.tmod (toInt_isize a) (toInt_isize b))
@[inline] def shl_isize (a : Int64) (s : Int) : M Int64 := if s < 0 || s >= 64 then .error .shift else .ok (ofInt_isize (toInt_isize a * (2:Int)^s.toNat))
@[inline] def shr_isize (a : Int64) (s : Int) : M Int64 := if s < 0 || s >= 64 then .error .shift else .ok (ofInt_isize (toInt_isize a / (2:Int)^s.toNat))
@[inline] def wrapping_neg_isize (a : Int64) : Int64 := ofInt_isize (- toInt_isize a)
@[inline] def wrapping_shr_isize (a : Int64) (s : UInt32) : Int64 := ofInt_isize (toInt_isize a / (2:Int)^(s.toNat % 64))
@[inline] def wrapping_shl_isize (a : Int64) (s : UInt32) : Int64 := ofInt_isize (toInt_isize a * (2:Int)^(s.toNat % 64))
@[inline] def checked_shl_isize (a : Int64) (s : UInt32) : Option Int64 := if s.toNat >= 64 then none else some (ofInt_isize (toInt_isize a * (2:Int)^s.toNat))
@[inline] def cast_bool_isize (b : Bool) : Int64 := ofInt_isize (if b then 1 else 0)
@[inline] def cast_enum_isize (b : Enum) : Int64 := ofInt_isize b
def const_isize_BITS : UInt32 := 64
def const_isize_MAX : Int64 := ofInt_isize 9223372036854775807
def const_isize_MIN : Int64 := ofInt_isize (-9223372036854775808)
@[inline] def min_value_isize : Int64 := ofInt_isize (-9223372036854775808)
@[inline] def max_value_isize : Int64 := ofInt_isize 9223372036854775807
@[inline] def min_isize (a b : Int64) : Int64 := if toInt_isize b < toInt_isize a then b else a
@[inline] def max_isize (a b : Int64) : Int64 := if toInt_isize b < toInt_isize a then a else b
@[inline] def le_isize (a b : Int64) : Bool := decide (toInt_isize a ≤ toInt_isize b)
@[inline] def lt_isize (a b : Int64) : Bool := decide (toInt_isize a < toInt_isize b)
@[inline] def eq_isize (a b : Int64) : Bool := toInt_isize a == toInt_isize b
@[inline] def ne_isize (a b : Int64) : Bool := toInt_isize a != toInt_isize b
@[inline] def gt_isize (a b : Int64) : Bool := decide (toInt_isize a > toInt_isize b)
@[inline] def ge_isize (a b : Int64) : Bool := decide (toInt_isize a ≥ toInt_isize b)
@[inline] def cmp_isize (a b : Int64) : Enum := if toInt_isize a < toInt_isize b then 0 else if toInt_isize a == toInt_isize b then 1 else 2
@[inline] def partial_cmp_isize (a b : Int64) : Option Enum := some (cmp_isize a b)
@[inline] def pow_isize (a : Int64) (e : UInt32) : M Int64 := chk_isize (toInt_isize a ^ e.toNat)
@[inline] def abs_isize (a : Int64) : M Int64 := chk_isize (Int.natAbs (toInt_isize a))
@[inline] def signum_isize (a : Int64) : Int64 := ofInt_isize (Int.sign (toInt_isize a))
@[inline] def is_negative_isize (a : Int64) : Bool := decide (toInt_isize a < 0)
@[inline] def leading_zeros_isize (a : Int64) : UInt32 := UInt32.ofNat (64 - (if toInt_isize a == 0 then 0 else Nat.log2 ((toInt_isize a % 18446744073709551616).toNat) + 1))
@[inline] def toInt_u128 (x : U128) : Int := (x.bv.toNat : Int)
@[inline] def ofInt_u128 (i : Int) : U128 := ⟨BitVec.ofInt 128 i⟩
@[inline] def chk_u128 (i : Int) : M U128 := if i < 0 || i > 340282366920938463463374607431768211455 then .error .overflow else .ok (ofInt_u128 i)
@[inline] def add_u128 (a b : U128) : M U128 := chk_u128 (toInt_u128 a + toInt_u128 b)
@[inline] def wrapping_add_u128 (a b : U128) : U128 := ofInt_u128 (toInt_u128 a + toInt_u128 b)
@[inline] def sub_u128 (a b : U128) : M U128 := chk_u128 (toInt_u128 a - toInt_u128 b)
@[inline] def wrapping_sub_u128 (a b : U128) : U128 := ofInt_u128 (toInt_u128 a - toInt_u128 b)
@[inline] def mul_u128 (a b : U128) : M U128 := chk_u128 (toInt_u128 a * toInt_u128 b)
@[inline] def wrapping_mul_u128 (a b : U128) : U128 := ofInt_u128 (toInt_u128 a * toInt_u128 b)
@[inline] def neg_u128 (a : U128) : M U128 := chk_u128 (- toInt_u128 a)
@[inline] def div_u128 (a b : U128) : M U128 := if toInt_u128 b == 0 then .error .divzero else chk_u128 (Int.tdiv (toInt_u128 a) (toInt_u128 b))
@[inline] def rem_u128 (a b : U128) : M U128 := if toInt_u128 b == 0 then .error .divzero else chk_u128 (Int.tmod (toInt_u128 a) (toInt_u128 b))
@[inline] def shl_u128 (a : U128) (s : Int) : M U128 := if s < 0 || s >= 128 then .error .shift else .ok (ofInt_u128 (toInt_u128 a * (2:Int)^s.toNat))
@[inline] def shr_u128 (a : U128) (s : Int) : M U128 := if s < 0 || s >= 128 then .error .shift else .ok (ofInt_u128 (toInt_u128 a / (2:Int)^s.toNat))
@[inline] def wrapping_neg_u128 (a : U128) : U128 := ofInt_u128 (- toInt_u128 a)
@[inline] def wrapping_shr_u128 (a : U128) (s : UInt32) : U128 := ofInt_u128 (toInt_u128 a / (2:Int)^(s.toNat % 128))
@[inline] def wrapping_shl_u128 (a : U128) (s : UInt32) : U128 := ofInt_u128 (toInt_u128 a * (2:Int)^(s.toNat % 128))
@[inline] def checked_shl_u128 (a : U128) (s : UInt32) : Option U128 := if s.toNat >= 128 then none else some (ofInt_u128 (toInt_u128 a * (2:Int)^s.toNat))
@[inline] def cast_bool_u128 (b : Bool) : U128 := ofInt_u128 (if b then 1 else 0)
@[inline] def cast_enum_u128 (b : Enum) : U128 := ofInt_u128 b
def const_u128_BITS : UInt32 := 128
def const_u128_MAX : U128 := ofInt_u128 340282366920938463463374607431768211455
def const_u128_MIN : U128 := ofInt_u128 (0)
@[inline] def min_value_u128 : U128 := ofInt_u128 (0)
@[inline] def max_value_u128 : U128 := ofInt_u128 340282366920938463463374607431768211455
@[inline] def min_u128 (a b : U128) : U128 := if toInt_u128 b < toInt_u128 a then b else a
@[inline] def max_u128 (a b : U128) : U128 := if toInt_u128 b < toInt_u128 a then a else b
@[inline] def le_u128 (a b : U128) : Bool := decide (toInt_u128 a ≤ toInt_u128 b)
@[inline] def lt_u128 (a b : U128) : Bool := decide (toInt_u128 a < toInt_u128 b)
@[inline] def eq_u128 (a b : U128) : Bool := toInt_u128 a == toInt_u128 b
@[inline] def ne_u128 (a b : U128) : Bool := toInt_u128 a != toInt_u128 b
@[inline] def gt_u128 (a b : U128) : Bool := decide (toInt_u128 a > toInt_u128 b)
@[inline] def ge_u128 (a b : U128) : Bool := decide (toInt_u128 a ≥ toInt_u128 b)
@[inline] def cmp_u128 (a b : U128) : Enum := if toInt_u128 a < toInt_u128 b then 0 else if toInt_u128 a == toInt_u128 b then 1 else 2
@[inline] def partial_cmp_u128 (a b : U128) : Option Enum := some (cmp_u128 a b)
@[inline] def pow_u128 (a : U128) (e : UInt32) : M U128 := chk_u128 (toInt_u128 a ^ e.toNat)
@[inline] def leading_zeros_u128 (a : U128) : UInt32 := UInt32.ofNat (128 - (if toInt_u128 a == 0 then 0 else Nat.log2 ((toInt_u128 a % 340282366920938463463374607431768211456).toNat) + 1))
@[inline] def toInt_i128 (x : I128) : Int := x.bv.toInt
@[inline] def ofInt_i128 (i : Int) : I128 := ⟨BitVec.ofInt 128 i⟩
@[inline] def chk_i128 (i : Int) : M I128 := if i < -170141183460469231731687303715884105728 || i > 170141183460469231731687303715884105727 then .error .overflow else .ok (ofInt_i128 i)
@[inline] def add_i128 (a b : I128) : M I128 := chk_i128 (toInt_i128 a + toInt_i128 b)
@[inline] def wrapping_add_i128 (a b : I128) : I128 := ofInt_i128 (toInt_i128 a + toInt_i128 b)
@[inline] def sub_i128 (a b : I128) : M I128 := chk_i128 (toInt_i128 a - toInt_i128 b)
@[inline] def wrapping_sub_i128 (a b : I128) : I128 := ofInt_i128 (toInt_i128 a - toInt_i128 b)
@[inline] def mul_i128 (a b : I128) : M I128 := chk_i128 (toInt_i128 a * toInt_i128 b)
@[inline] def wrapping_mul_i128 (a b : I128) : I128 := ofInt_i128 (toInt_i128 a * toInt_i128 b)
@[inline] def neg_i128 (a : I128) : M I128 := chk_i128 (- toInt_i128 a)
@[inline] def div_i128 (a b : I128) : M I128 := if toInt_i128 b == 0 then .error .divzero else chk_i128 (Int.tdiv (toInt_i128 a) (toInt_i128 b))
@[inline] def rem_i128 (a b : I128) : M I128 := if toInt_i128 b == 0 then .error .divzero else chk_i128 (Int.tmod (toInt_i128 a) (toInt_i128 b))
@[inline] def shl_i128 (a : I128) (s : Int) : M I128 := if s < 0 || s >= 128 then .error .shift else .ok (ofInt_i128 (toInt_i128 a * (2:Int)^s.toNat))
@[inline] def shr_i128 (a : I128) (s : Int) : M I128 := if s < 0 || s >= 128 then .error .shift else .ok (ofInt_i128 (toInt_i128 a / (2:Int)^s.toNat))
@[inline] def wrapping_neg_i128 (a : I128) : I128 := ofInt_i128 (- toInt_i128 a)
@[inline] def wrapping_shr_i128 (a : I128) (s : UInt32) : I128 := ofInt_i128 (toInt_i128 a / (2:Int)^(s.toNat % 128))
@[inline] def wrapping_shl_i128 (a : I128) (s : UInt32) : I128 := ofInt_i128 (toInt_i128 a * (2:Int)^(s.toNat % 128))
@[inline] def checked_shl_i128 (a : I128) (s : UInt32) : Option I128 := if s.toNat >= 128 then none else some (ofInt_i128 (toInt_i128 a * (2:Int)^s.toNat))
@[inline] def cast_bool_i128 (b : Bool) : I128 := ofInt_i128 (if b then 1 else 0)
@[inline] def cast_enum_i128 (b : Enum) : I128 := ofInt_i128 b
def const_i128_BITS : UInt32 := 128
def const_i128_MAX : I128 := ofInt_i128 170141183460469231731687303715884105727
def const_i128_MIN : I128 := ofInt_i128 (-170141183460469231731687303715884105728)
@[inline] def min_value_i128 : I128 := ofInt_i128 (-170141183460469231731687303715884105728)
@[inline] def max_value_i128 : I128 := ofInt_i128 170141183460469231731687303715884105727
@[inline] def min_i128 (a b : I128) : I128 := if toInt_i128 b < toInt_i128 a then b else a
@[inline] def max_i128 (a b : I128) : I128 := if toInt_i128 b < toInt_i128 a then a else b
@[inline] def le_i128 (a b : I128) : Bool := decide (toInt_i128 a ≤ toInt_i128 b)
@[inline] def lt_i128 (a b : I128) : Bool := decide (toInt_i128 a < toInt_i128 b)
@[inline] def eq_i128 (a b : I128) : Bool := toInt_i128 a == toInt_i128 b
@[inline] def ne_i128 (a b : I128) : Bool := toInt_i128 a != toInt_i128 b
@[inline] def gt_i128 (a b : I128) : Bool := decide (toInt_i128 a > toInt_i128 b)
@[inline] def ge_i128 (a b : I128) : Bool := decide (toInt_i128 a ≥ toInt_i128 b)
@[inline] def cmp_i128 (a b : I128) : Enum := if toInt_i128 a < toInt_i128 b then 0 else if toInt_i128 a == toInt_i128 b then 1 else 2
@[inline] def partial_cmp_i128 (a b : I128) : Option Enum := some (cmp_i128 a b)
@[inline] def pow_i128 (a : I128) (e : UInt32) : M I128 := chk_i128 (toInt_i128 a ^ e.toNat)
@[inline] def abs_i128 (a : I128) : M I128 := chk_i128 (Int.natAbs (toInt_i128 a))
@[inline] def signum_i128 (a : I128) : I128 := ofInt_i128 (Int.sign (toInt_i128 a))
@[inline] def is_negative_i128 (a : I128) : Bool := decide (toInt_i128 a < 0)
@[inline] def leading_zeros_i128 (a : I128) : UInt32 := UInt32.ofNat (128 - (if toInt_i128 a == 0 then 0 else Nat.log2 ((toInt_i128 a % 340282366920938463463374607431768211456).toNat) + 1))
@[inline] def cast_u8_u8 (x : UInt8) : UInt8 := ofInt_u8 (toInt_u8 x)
@[inline] def cast_u8_u16 (x : UInt8) : UInt16 := ofInt_u16 (toInt_u8 x)
@[inline] def cast_u8_u32 (x : UInt8) : UInt32 := ofInt_u32 (toInt_u8 x)
@[inline] def cast_u8_u64 (x : UInt8) : UInt64 := ofInt_u64 (toInt_u8 x)
@[inline] def cast_u8_usize (x : UInt8) : UInt64 := ofInt_usize (toInt_u8 x)
@[inline] def cast_u8_i8 (x : UInt8) : Int8 := ofInt_i8 (toInt_u8 x)
@[inline] def cast_u8_i16 (x : UInt8) : Int16 := ofInt_i16 (toInt_u8 x)
@[inline] def cast_u8_i32 (x : UInt8) : Int32 := ofInt_i32 (toInt_u8 x)
@[inline] def cast_u8_i64 (x : UInt8) : Int64 := ofInt_i64 (toInt_u8 x)
@[inline] def cast_u8_isize (x : UInt8) : Int64 := ofInt_isize (toInt_u8 x)
@[inline] def cast_u8_u128 (x : UInt8) : U128 := ofInt_u128 (toInt_u8 x)
@[inline] def cast_u8_i128 (x : UInt8) : I128 := ofInt_i128 (toInt_u8 x)
@[inline] def cast_u16_u8 (x : UInt16) : UInt8 := ofInt_u8 (toInt_u16 x)
@[inline] def cast_u16_u16 (x : UInt16) : UInt16 := ofInt_u16 (toInt_u16 x)
@[inline] def cast_u16_u32 (x : UInt16) : UInt32 := ofInt_u32 (toInt_u16 x)
@[inline] def cast_u16_u64 (x : UInt16) : UInt64 := ofInt_u64 (toInt_u16 x)
@[inline] def cast_u16_usize (x : UInt16) : UInt64 := ofInt_usize (toInt_u16 x)
@[inline] def cast_u16_i8 (x : UInt16) : Int8 := ofInt_i8 (toInt_u16 x)
@[inline] def cast_u16_i16 (x : UInt16) : Int16 := ofInt_i16 (toInt_u16 x)
@[inline] def cast_u16_i32 (x : UInt16) : Int32 := ofInt_i32 (toInt_u16 x)
@[inline] def cast_u16_i64 (x : UInt16) : Int64 := ofInt_i64 (toInt_u16 x)
@[inline] def cast_u16_isize (x : UInt16) : Int64 := ofInt_isize (toInt_u16 x)
@[inline] def cast_u16_u128 (x : UInt16) : U128 := ofInt_u128 (toInt_u16 x)
@[inline] def cast_u16_i128 (x : UInt16) : I128 := ofInt_i128 (toInt_u16 x)
@[inline] def cast_u32_u8 (x : UInt32) : UInt8 := ofInt_u8 (toInt_u32 x)
@[inline] def cast_u32_u16 (x : UInt32) : UInt16 := ofInt_u16 (toInt_u32 x)
@[inline] def cast_u32_u32 (x : UInt32) : UInt32 := ofInt_u32 (toInt_u32 x)
@[inline] def cast_u32_u64 (x : UInt32) : UInt64 := ofInt_u64 (toInt_u32 x)
@[inline] def cast_u32_usize (x : UInt32) : UInt64 := ofInt_usize (toInt_u32 x)
@[inline] def cast_u32_i8 (x : UInt32) : Int8 := ofInt_i8 (toInt_u32 x)
@[inline] def cast_u32_i16 (x : UInt32) : Int16 := ofInt_i16 (toInt_u32 x)
@[inline] def cast_u32_i32 (x : UInt32) : Int32 := ofInt_i32 (toInt_u32 x)
@[inline] def cast_u32_i64 (x : UInt32) : Int64 := ofInt_i64 (toInt_u32 x)
@[inline] def cast_u32_isize (x : UInt32) : Int64 := ofInt_isize (toInt_u32 x)
@[inline] def cast_u32_u128 (x : UInt32) : U128 := ofInt_u128 (toInt_u32 x)
@[inline] def cast_u32_i128 (x : UInt32) : I128 := ofInt_i128 (toInt_u32 x)
@[inline] def cast_u64_u8 (x : UInt64) : UInt8 := ofInt_u8 (toInt_u64 x)
@[inline] def cast_u64_u16 (x : UInt64) : UInt16 := ofInt_u16 (toInt_u64 x)
@[inline] def cast_u64_u32 (x : UInt64) : UInt32 := ofInt_u32 (toInt_u64 x)
@[inline] def cast_u64_u64 (x : UInt64) : UInt64 := ofInt_u64 (toInt_u64 x)
@[inline] def cast_u64_usize (x : UInt64) : UInt64 := ofInt_usize (toInt_u64 x)
@[inline] def cast_u64_i8 (x : UInt64) : Int8 := ofInt_i8 (toInt_u64 x)
@[inline] def cast_u64_i16 (x : UInt64) : Int16 := ofInt_i16 (toInt_u64 x)
@[inline] def cast_u64_i32 (x : UInt64) : Int32 := ofInt_i32 (toInt_u64 x)
@[inline] def cast_u64_i64 (x : UInt64) : Int64 := ofInt_i64 (toInt_u64 x)
@[inline] def cast_u64_isize (x : UInt64) : Int64 := ofInt_isize (toInt_u64 x)
@[inline] def cast_u64_u128 (x : UInt64) : U128 := ofInt_u128 (toInt_u64 x)
@[inline] def cast_u64_i128 (x : UInt64) : I128 := ofInt_i128 (toInt_u64 x)
@[inline] def cast_usize_u8 (x : UInt64) : UInt8 := ofInt_u8 (toInt_usize x)
@[inline] def cast_usize_u16 (x : UInt64) : UInt16 := ofInt_u16 (toInt_usize x)
@[inline] def cast_usize_u32 (x : UInt64) : UInt32 := ofInt_u32 (toInt_usize x)
@[inline] def cast_usize_u64 (x : UInt64) : UInt64 := ofInt_u64 (toInt_usize x)
@[inline] def cast_usize_usize (x : UInt64) : UInt64 := ofInt_usize (toInt_usize x)
@[inline] def cast_usize_i8 (x : UInt64) : Int8 := ofInt_i8 (toInt_usize x)
@[inline] def cast_usize_i16 (x : UInt64) : Int16 := ofInt_i16 (toInt_usize x)
@[inline] def cast_usize_i32 (x : UInt64) : Int32 := ofInt_i32 (toInt_usize x)
@[inline] def cast_usize_i64 (x : UInt64) : Int64 := ofInt_i64 (toInt_usize x)
@[inline] def cast_usize_isize (x : UInt64) : Int64 := ofInt_isize (toInt_usize x)
@[inline] def cast_usize_u128 (x : UInt64) : U128 := ofInt_u128 (toInt_usize x)
@[inline] def cast_usize_i128 (x : UInt64) : I128 := ofInt_i128 (toInt_usize x)
@[inline] def cast_i8_u8 (x : Int8) : UInt8 := ofInt_u8 (toInt_i8 x)
@[inline] def cast_i8_u16 (x : Int8) : UInt16 := ofInt_u16 (toInt_i8 x)
@[inline] def cast_i8_u32 (x : Int8) : UInt32 := ofInt_u32 (toInt_i8 x)
@[inline] def cast_i8_u64 (x : Int8) : UInt64 := ofInt_u64 (toInt_i8 x)
@[inline] def cast_i8_usize (x : Int8) : UInt64 := ofInt_usize (toInt_i8 x)
@[inline] def cast_i8_i8 (x : Int8) : Int8 := ofInt_i8 (toInt_i8 x)
@[inline] def cast_i8_i16 (x : Int8) : Int16 := ofInt_i16 (toInt_i8 x)
@[inline] def cast_i8_i32 (x : Int8) : Int32 := ofInt_i32 (toInt_i8 x)
@[inline] def cast_i8_i64 (x : Int8) : Int64 := ofInt_i64 (toInt_i8 x)
@[inline] def cast_i8_isize (x : Int8) : Int64 := ofInt_isize (toInt_i8 x)
@[inline] def cast_i8_u128 (x : Int8) : U128 := ofInt_u128 (toInt_i8 x)
@[inline] def cast_i8_i128 (x : Int8) : I128 := ofInt_i128 (toInt_i8 x)
@[inline] def cast_i16_u8 (x : Int16) : UInt8 := ofInt_u8 (toInt_i16 x)
@[inline] def cast_i16_u16 (x : Int16) : UInt16 := ofInt_u16 (toInt_i16 x)
@[inline] def cast_i16_u32 (x : Int16) : UInt32 := ofInt_u32 (toInt_i16 x)
@[inline] def cast_i16_u64 (x : Int16) : UInt64 := ofInt_u64 (toInt_i16 x)
@[inline] def cast_i16_usize (x : Int16) : UInt64 := ofInt_usize (toInt_i16 x)
@[inline] def cast_i16_i8 (x : Int16) : Int8 := ofInt_i8 (toInt_i16 x)
@[inline] def cast_i16_i16 (x : Int16) : Int16 := ofInt_i16 (toInt_i16 x)
@[inline] def cast_i16_i32 (x : Int16) : Int32 := ofInt_i32 (toInt_i16 x)
@[inline] def cast_i16_i64 (x : Int16) : Int64 := ofInt_i64 (toInt_i16 x)
@[inline] def cast_i16_isize (x : Int16) : Int64 := ofInt_isize (toInt_i16 x)
@[inline] def cast_i16_u128 (x : Int16) : U128 := ofInt_u128 (toInt_i16 x)
@[inline] def cast_i16_i128 (x : Int16) : I128 := ofInt_i128 (toInt_i16 x)
@[inline] def cast_i32_u8 (x : Int32) : UInt8 := ofInt_u8 (toInt_i32 x)
@[inline] def cast_i32_u16 (x : Int32) : UInt16 := ofInt_u16 (toInt_i32 x)
@[inline] def cast_i32_u32 (x : Int32) : UInt32 := ofInt_u32 (toInt_i32 x)
@[inline] def cast_i32_u64 (x : Int32) : UInt64 := ofInt_u64 (toInt_i32 x)
@[inline] def cast_i32_usize (x : Int32) : UInt64 := ofInt_usize (toInt_i32 x)
@[inline] def cast_i32_i8 (x : Int32) : Int8 := ofInt_i8 (toInt_i32 x)
@[inline] def cast_i32_i16 (x : Int32) : Int16 := ofInt_i16 (toInt_i32 x)
@[inline] def cast_i32_i32 (x : Int32) : Int32 := ofInt_i32 (toInt_i32 x)
@[inline] def cast_i32_i64 (x : Int32) : Int64 := ofInt_i64 (toInt_i32 x)
@[inline] def cast_i32_isize (x : Int32) : Int64 := ofInt_isize (toInt_i32 x)
@[inline] def cast_i32_u128 (x : Int32) : U128 := ofInt_u128 (toInt_i32 x)
@[inline] def cast_i32_i128 (x : Int32) : I128 := ofInt_i128 (toInt_i32 x)
@[inline] def cast_i64_u8 (x : Int64) : UInt8 := ofInt_u8 (toInt_i64 x)
@[inline] def cast_i64_u16 (x : Int64) : UInt16 := ofInt_u16 (toInt_i64 x)
@[inline] def cast_i64_u32 (x : Int64) : UInt32 := ofInt_u32 (toInt_i64 x)
@[inline] def cast_i64_u64 (x : Int64) : UInt64 := ofInt_u64 (toInt_i64 x)
@[inline] def cast_i64_usize (x : Int64) : UInt64 := ofInt_usize (toInt_i64 x)
@[inline] def cast_i64_i8 (x : Int64) : Int8 := ofInt_i8 (toInt_i64 x)
@[inline] def cast_i64_i16 (x : Int64) : Int16 := ofInt_i16 (toInt_i64 x)
@[inline] def cast_i64_i32 (x : Int64) : Int32 := ofInt_i32 (toInt_i64 x)
@[inline] def cast_i64_i64 (x : Int64) : Int64 := ofInt_i64 (toInt_i64 x)
@[inline] def cast_i64_isize (x : Int64) : Int64 := ofInt_isize (toInt_i64 x)
@[inline] def cast_i64_u128 (x : Int64) : U128 := ofInt_u128 (toInt_i64 x)
@[inline] def cast_i64_i128 (x : Int64) : I128 := ofInt_i128 (toInt_i64 x)
@[inline] def cast_isize_u8 (x : Int64) : UInt8 := ofInt_u8 (toInt_isize x)
@[inline] def cast_isize_u16 (x : Int64) : UInt16 := ofInt_u16 (toInt_isize x)
@[inline] def cast_isize_u32 (x : Int64) : UInt32 := ofInt_u32 (toInt_isize x)
@[inline] def cast_isize_u64 (x : Int64) : UInt64 := ofInt_u64 (toInt_isize x)
@[inline] def cast_isize_usize (x : Int64) : UInt64 := ofInt_usize (toInt_isize x)
@[inline] def cast_isize_i8 (x : Int64) : Int8 := ofInt_i8 (toInt_isize x)
@[inline] def cast_isize_i16 (x : Int64) : Int16 := ofInt_i16 (toInt_isize x)
@[inline] def cast_isize_i32 (x : Int64) : Int32 := ofInt_i32 (toInt_isize x)
@[inline] def cast_isize_i64 (x : Int64) : Int64 := ofInt_i64 (toInt_isize x)
@[inline] def cast_isize_isize (x : Int64) : Int64 := ofInt_isize (toInt_isize x)
@[inline] def cast_isize_u128 (x : Int64) : U128 := ofInt_u128 (toInt_isize x)
@[inline] def cast_isize_i128 (x : Int64) : I128 := ofInt_i128 (toInt_isize x)
@[inline] def cast_u128_u8 (x : U128) : UInt8 := ofInt_u8 (toInt_u128 x)
@[inline] def cast_u128_u16 (x : U128) : UInt16 := ofInt_u16 (toInt_u128 x)
@[inline] def cast_u128_u32 (x : U128) : UInt32 := ofInt_u32 (toInt_u128 x)
@[inline] def cast_u128_u64 (x : U128) : UInt64 := ofInt_u64 (toInt_u128 x)
@[inline] def cast_u128_usize (x : U128) : UInt64 := ofInt_usize (toInt_u128 x)
@[inline] def cast_u128_i8 (x : U128) : Int8 := ofInt_i8 (toInt_u128 x)
@[inline] def cast_u128_i16 (x : U128) : Int16 := ofInt_i16 (toInt_u128 x)
@[inline] def cast_u128_i32 (x : U128) : Int32 := ofInt_i32 (toInt_u128 x)
@[inline] def cast_u128_i64 (x : U128) : Int64 := ofInt_i64 (toInt_u128 x)
@[inline] def cast_u128_isize (x : U128) : Int64 := ofInt_isize (toInt_u128 x)
@[inline] def cast_u128_u128 (x : U128) : U128 := ofInt_u128 (toInt_u128 x)
@[inline] def cast_u128_i128 (x : U128) : I128 := ofInt_i128 (toInt_u128 x)
@[inline] def cast_i128_u8 (x : I128) : UInt8 := ofInt_u8 (toInt_i128 x)
@[inline] def cast_i128_u16 (x : I128) : UInt16 := ofInt_u16 (toInt_i128 x)
@[inline] def cast_i128_u32 (x : I128) : UInt32 := ofInt_u32 (toInt_i128 x)
@[inline] def cast_i128_u64 (x : I128) : UInt64 := ofInt_u64 (toInt_i128 x)
@[inline] def cast_i128_usize (x : I128) : UInt64 := ofInt_usize (toInt_i128 x)
@[inline] def cast_i128_i8 (x : I128) : Int8 := ofInt_i8 (toInt_i128 x)
@[inline] def cast_i128_i16 (x : I128) : Int16 := ofInt_i16 (toInt_i128 x)
@[inline] def cast_i128_i32 (x : I128) : Int32 := ofInt_i32 (toInt_i128 x)
@[inline] def cast_i128_i64 (x : I128) : Int64 := ofInt_i64 (toInt_i128 x)
@[inline] def cast_i128_isize (x : I128) : Int64 := ofInt_isize (toInt_i128 x)
@[inline] def cast_i128_u128 (x : I128) : U128 := ofInt_u128 (toInt_i128 x)
@[inline] def cast_i128_i128 (x : I128) : I128 := ofInt_i128 (toInt_i128 x)
def transmute_u128_arr (x : U128) : Array UInt64 := #[UInt64.ofNat (x.bv.toNat % 2^64), UInt64.ofNat (x.bv.toNat / 2^64)]
end Rs
