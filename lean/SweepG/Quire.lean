import Gen.P8
import Gen.P16
import Gen.P32
import Spec
import Sweep
/-! check functions for the quire theorems (precompiled; they mention `Gen`) -/
open Gen
namespace SweepG

def q8Bits (q : Int32) : Nat := q.toUInt32.toNat
def q16Bits (q : Rs.I128) : Nat := q.bv.toNat

/-- one product step from the cleared Q8E0 quire holds exactly ±a·b -/
def q8StepZero (plus : Bool) (a b : Nat) : Bool :=
  match crate.quire8.ops.fdp crate.quire8.Q8E0.ZERO (UInt8.ofNat a) (UInt8.ofNat b) plus with
  | .ok (_, q) => q8Bits q == Spec.qBits Spec.q8 (Spec.qStep Spec.q8 (some 0) (if plus then .addProd a b else .subProd a b))
  | .error _ => false
def q8OneZero (plus : Bool) (a : Nat) : Bool :=
  match crate.quire8.ops.fdp_one crate.quire8.Q8E0.ZERO (UInt8.ofNat a) plus with
  | .ok (_, q) => q8Bits q == Spec.qBits Spec.q8 (Spec.qStep Spec.q8 (some 0) (if plus then .addOne a else .subOne a))
  | .error _ => false
def q16OneZero (plus : Bool) (a : Nat) : Bool :=
  match crate.quire16.ops.fdp_one crate.quire16.Q16E1.ZERO (UInt16.ofNat a) plus with
  | .ok (_, q) => q16Bits q == Spec.qBits Spec.q16 (Spec.qStep Spec.q16 (some 0) (if plus then .addOne a else .subOne a))
  | .error _ => false

/-- posit → quire → posit is the identity -/
def q8RoundTrip (a : Nat) : Bool :=
  match (do let q ← crate.quire8.Q8E0.from_posit (Sweep.p8 a); crate.quire8.convert.Q8E0.to_posit q) with
  | .ok p => Sweep.bits8 p == a
  | .error _ => false
def q16RoundTrip (a : Nat) : Bool :=
  match (do let q ← crate.quire16.Q16E1.from_posit (Sweep.p16 a); crate.quire16.convert.Q16E1.to_posit q) with
  | .ok p => Sweep.bits16 p == a
  | .error _ => false

/-- `to_posit` of the state reached by one product from zero is the product rounded once (= `mul`) -/
def q8ToPositProd (a b : Nat) : Bool :=
  match (do let r ← crate.quire8.ops.fdp crate.quire8.Q8E0.ZERO (UInt8.ofNat a) (UInt8.ofNat b) true
            crate.quire8.convert.Q8E0.to_posit r.2) with
  | .ok p => Sweep.bits8 p == Spec.mul Spec.p8 a b
  | .error _ => false
end SweepG
