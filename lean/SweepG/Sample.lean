import Gen.P8
import Gen.P16
import Gen.P32
import Sweep
/-! check functions for C19 (random sampling); `rng_k` inputs of the generated `sample` models are the values drawn by
`gen_range` -/
open Gen
namespace SweepG

/-- drawn value in range ⇒ a real posit in [0,1); out of range ⇒ the model reports the violated contract -/
def sample8Ok (r : Nat) : Bool :=
  match crate.p8e0.rand.Distribution.sample (UInt8.ofNat r) with
  | .ok p => r < 64 && Sweep.bits8 p < 0x40
  | .error e => r ≥ 64 && e == .assume
def sample16Ok (r : Nat) : Bool :=
  match crate.p16e1.rand.Distribution.sample (UInt32.ofNat r) with
  | .ok p => Sweep.bits16 p < 0x4000
  | .error e => e == .assume
/-- `(from_bits(s) - ONE)` for a draw `s` of the first generator call: a pattern in `[0, 0x4000_0000)` -/
def sample32SubOk (s : Nat) : Bool :=
  match crate.p32e2.P32E2.from_bits (UInt32.ofNat s) with
  | .error _ => false
  | .ok y =>
    match crate.p32e2.ops.P32E2.Sub.sub y crate.p32e2.P32E2.ONE with
    | .error _ => false
    | .ok p => decide (Sweep.bits32 p < 0x40000000)
def sample32Ok (r1 : Nat) : Bool :=
  Sweep.all1 4 fun r2 =>
    match crate.p32e2.rand.Distribution.sample (UInt32.ofNat r1) (UInt32.ofNat r2) with
    | .ok p => Sweep.bits32 p < 0x40000000
    | .error _ => false
end SweepG
