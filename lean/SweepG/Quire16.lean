import Gen.P16
import Spec
import Sweep
/-! The accumulator-independent part of `quire16::ops::fdp` / `fdp_one`, written out so that the functions can be factored as
`q ↦ norm (q + δ)` (`Props/C04Hist16.lean`); plus the per-operand checks of `δ` (precompiled for `native_decide`). -/
open Gen
namespace SweepG

/-- the fixed-point image of `±a·b` (units of 2^-56 = minpos²) computed by `quire16::ops::fdp`, as a two's-complement 128-bit word -/
def q16Delta (ui_a ui_b : UInt16) (plus : Bool) : Rs.M Rs.U128 := do
  let mut ui_a := ui_a
  let mut ui_b := ui_b
  let sign_a ← crate.p16e1.P16E1.sign_ui ui_a
  let sign_b ← crate.p16e1.P16E1.sign_ui ui_b
  let sign_z2 := (sign_a != sign_b)
  if sign_a then ui_a := Rs.wrapping_neg_u16 ui_a
  if sign_b then ui_b := Rs.wrapping_neg_u16 ui_b
  let p3 ← crate.p16e1.P16E1.separate_bits ui_a
  let p4 ← crate.p16e1.P16E1.separate_bits ui_b
  let mut k_a ← Rs.add_i8 p3.1 p4.1
  let mut exp_a ← Rs.add_i8 p3.2.1 p4.2.1
  let mut frac32_z ← Rs.mul_u32 (Rs.cast_u16_u32 p3.2.2) (Rs.cast_u16_u32 p4.2.2)
  if (decide (exp_a > (1 : Int8))) then
    k_a := (← Rs.add_i8 k_a (1 : Int8))
    exp_a := (exp_a ^^^ (2 : Int8))
  let rcarry : Bool := ((← Rs.shr_u32 frac32_z (Rs.toInt_i32 (29 : Int32))) != (0 : UInt32))
  if rcarry then
    if (exp_a != (0 : Int8)) then
      k_a := (← Rs.add_i8 k_a (1 : Int8))
    exp_a := (exp_a ^^^ (1 : Int8))
    frac32_z := (← Rs.shr_u32 frac32_z (Rs.toInt_i32 (1 : Int32)))
  let shift_right : Int16 := (← Rs.neg_i16 (← Rs.add_i16 (← Rs.add_i16 (28 : Int16) (← Rs.shl_i16 (Rs.cast_i8_i16 k_a) (Rs.toInt_i32 (1 : Int32)))) (Rs.cast_i8_i16 exp_a)))
  let mut u_z2 : Rs.U128 := default
  if (decide (shift_right < (0 : Int16))) then
    u_z2 := (← Rs.shl_u128 (Rs.cast_u32_u128 frac32_z) (Rs.toInt_i16 (← Rs.neg_i16 shift_right)))
  else
    u_z2 := (← Rs.shr_u128 (Rs.cast_u32_u128 frac32_z) (Rs.toInt_i16 shift_right))
  if (!(sign_z2 != plus)) then
    u_z2 := (Rs.wrapping_neg_u128 u_z2)
  return u_z2


/-- the tail of `q16Delta` after the two operands are decoded and their scales / fractions combined -/
def q16Core (k_a0 : Int8) (exp_a0 : Int8) (frac32_z0 : UInt32) (negate : Bool) : Rs.M Rs.U128 := do
  let mut k_a := k_a0
  let mut exp_a := exp_a0
  let mut frac32_z := frac32_z0
  if (decide (exp_a > (1 : Int8))) then
    k_a := (← Rs.add_i8 k_a (1 : Int8))
    exp_a := (exp_a ^^^ (2 : Int8))
  let rcarry : Bool := ((← Rs.shr_u32 frac32_z (Rs.toInt_i32 (29 : Int32))) != (0 : UInt32))
  if rcarry then
    if (exp_a != (0 : Int8)) then
      k_a := (← Rs.add_i8 k_a (1 : Int8))
    exp_a := (exp_a ^^^ (1 : Int8))
    frac32_z := (← Rs.shr_u32 frac32_z (Rs.toInt_i32 (1 : Int32)))
  let shift_right : Int16 := (← Rs.neg_i16 (← Rs.add_i16 (← Rs.add_i16 (28 : Int16) (← Rs.shl_i16 (Rs.cast_i8_i16 k_a) (Rs.toInt_i32 (1 : Int32)))) (Rs.cast_i8_i16 exp_a)))
  let mut u_z2 : Rs.U128 := default
  if (decide (shift_right < (0 : Int16))) then
    u_z2 := (← Rs.shl_u128 (Rs.cast_u32_u128 frac32_z) (Rs.toInt_i16 (← Rs.neg_i16 shift_right)))
  else
    u_z2 := (← Rs.shr_u128 (Rs.cast_u32_u128 frac32_z) (Rs.toInt_i16 shift_right))
  if negate then
    u_z2 := (Rs.wrapping_neg_u128 u_z2)
  return u_z2

/-- the fixed-point image of `±a` computed by `quire16::ops::fdp_one` -/
def q16Delta1 (ui_a : UInt16) (plus : Bool) : Rs.M Rs.U128 := do
  let mut ui_a := ui_a
  let sign_a ← crate.p16e1.P16E1.sign_ui ui_a
  if sign_a then ui_a := Rs.wrapping_neg_u16 ui_a
  let p2 ← crate.p16e1.P16E1.separate_bits ui_a
  let mut k_a := p2.1
  let mut exp_a := p2.2.1
  let mut frac32_z ← Rs.shl_u32 (Rs.cast_u16_u32 p2.2.2) (Rs.toInt_i32 (14 : Int32))
  if (decide (exp_a > (1 : Int8))) then
    k_a := (← Rs.add_i8 k_a (1 : Int8))
    exp_a := (exp_a ^^^ (2 : Int8))
  let rcarry : Bool := ((← Rs.shr_u32 frac32_z (Rs.toInt_i32 (29 : Int32))) != (0 : UInt32))
  if rcarry then
    if (exp_a != (0 : Int8)) then
      k_a := (← Rs.add_i8 k_a (1 : Int8))
    exp_a := (exp_a ^^^ (1 : Int8))
    frac32_z := (← Rs.shr_u32 frac32_z (Rs.toInt_i32 (1 : Int32)))
  let shift_right : Int16 := (← Rs.neg_i16 (← Rs.add_i16 (← Rs.add_i16 (28 : Int16) (← Rs.shl_i16 (Rs.cast_i8_i16 k_a) (Rs.toInt_i32 (1 : Int32)))) (Rs.cast_i8_i16 exp_a)))
  let mut u_z2 : Rs.U128 := default
  if (decide (shift_right < (0 : Int16))) then
    u_z2 := (← Rs.shl_u128 (Rs.cast_u32_u128 frac32_z) (Rs.toInt_i16 (← Rs.neg_i16 shift_right)))
  else
    u_z2 := (← Rs.shr_u128 (Rs.cast_u32_u128 frac32_z) (Rs.toInt_i16 shift_right))
  if (!(sign_a != plus)) then
    u_z2 := (Rs.wrapping_neg_u128 u_z2)
  return u_z2

/-- signed reading of a 128-bit two's-complement word -/
def sval128 (d : Rs.U128) : Int := d.bv.toInt

/-- `2^28 · value` of a real P16E1 pattern: every P16E1 value is a multiple of minpos = 2^-28 (0 for NaR) -/
def v28 (x : Nat) : Int := match Spec.toRat Spec.p16 x with | some q => (q * 268435456).num | none => 0
def v28Exact (x : Nat) : Bool := match Spec.toRat Spec.p16 x with | some q => (q * 268435456).den == 1 | none => true

/-- the same numbers as a table built once (the 2^32-pair sweep reads the table; `v28TableOk` ties it to `v28`) -/
def v28Table : Array Int := Array.ofFn (n := 65536) (fun i => v28 i.val)
def v28T (x : Nat) : Int := v28Table.getD x 0
def v28TableOk (x : Nat) : Bool := v28T x == v28 x


/-- `separate_bits` of every positive 15-bit magnitude, tabulated once (`sepTableOk` ties the table to the model function) -/
def sepTable : Array (Int8 × Int8 × UInt16) := Array.ofFn (n := 32768) (fun i =>
  match crate.p16e1.P16E1.separate_bits (UInt16.ofNat i.val) with | .ok p => p | .error _ => (0, 0, 0))
def sepT (x : Nat) : Int8 × Int8 × UInt16 := sepTable.getD x (0, 0, 0)
def sepTableOk (x : Nat) : Bool :=
  match crate.p16e1.P16E1.separate_bits (UInt16.ofNat x) with | .ok p => x == 0 || p == sepT x | .error _ => x == 0

/-- sign symmetry of `v28`: the value of a negative pattern is minus the value of its magnitude -/
def v28NegOk (x : Nat) : Bool := x == 0 || x == 32768 || v28 ((65536 - x) % 65536) == - v28 x


/-- per-operand sign facts: `sign_ui` is the top bit, and the magnitude pattern of a negative operand is its two's complement -/
def signOk (x : Nat) : Bool :=
  (match crate.p16e1.P16E1.sign_ui (UInt16.ofNat x) with | .ok s => s == decide (x ≥ 32768) | .error _ => false) &&
  (Rs.wrapping_neg_u16 (UInt16.ofNat x)).toNat == (65536 - x) % 65536

/-- the core applied to two decoded magnitudes: exact product of the two values, with the requested sign -/
def q16CoreOk (neg : Bool) (a b : Nat) : Bool :=
  if a == 0 || b == 0 then true else
  let pa := sepT a; let pb := sepT b
  match (do let K ← Rs.add_i8 pa.1 pb.1
            let E ← Rs.add_i8 pa.2.1 pb.2.1
            let F ← Rs.mul_u32 (Rs.cast_u16_u32 pa.2.2) (Rs.cast_u16_u32 pb.2.2)
            q16Core K E F neg) with
  | .ok d => sval128 d == (if neg then -(v28T a * v28T b) else v28T a * v28T b)
  | .error _ => false

def q16DeltaOk (plus : Bool) (a b : Nat) : Bool :=
  if a == 0 || a == 32768 || b == 0 || b == 32768 then true else
  match q16Delta (UInt16.ofNat a) (UInt16.ofNat b) plus with
  | .ok d => sval128 d == (if plus then v28T a * v28T b else -(v28T a * v28T b))
  | .error _ => false
def q16Delta1Ok (plus : Bool) (a : Nat) : Bool :=
  if a == 0 || a == 32768 then true else
  match q16Delta1 (UInt16.ofNat a) plus with
  | .ok d => sval128 d == (if plus then v28 a * 268435456 else -(v28 a * 268435456))
  | .error _ => false
end SweepG
