import Gen.P8
import Spec
import Sweep
/-! The accumulator-independent part of `quire8::ops::fdp` / `fdp_one`, written out so that the functions can be
factored as `q ↦ norm (q + δ)`; plus the per-operand checks of `δ` (precompiled for `native_decide`). -/
open Gen
namespace SweepG

/-- the fixed-point image of `±a·b` computed by `fdp`, as a two's-complement word -/
def q8Delta (ui_a ui_b : UInt8) (plus : Bool) : Rs.M UInt32 := do
  let mut ui_a := ui_a
  let mut ui_b := ui_b
  let sign_a ← crate.p8e0.P8E0.sign_ui ui_a
  let sign_b ← crate.p8e0.P8E0.sign_ui ui_b
  let sign_z2 := (sign_a != sign_b)
  if sign_a then ui_a := Rs.wrapping_neg_u8 ui_a
  if sign_b then ui_b := Rs.wrapping_neg_u8 ui_b
  let p3 ← crate.p8e0.P8E0.separate_bits ui_a
  let p4 ← crate.p8e0.P8E0.separate_bits ui_b
  let k_a ← Rs.add_i8 p3.1 p4.1
  let frac32_z ← Rs.shl_u32 (← Rs.mul_u32 (Rs.cast_u8_u32 p3.2) (Rs.cast_u8_u32 p4.2)) (Rs.toInt_i32 (16 : Int32))
  let shift_right ← Rs.sub_i8 (18 : Int8) k_a
  let mut uq_z2 ← Rs.shr_u32 frac32_z (Rs.toInt_i8 shift_right)
  if (!(sign_z2 != plus)) then uq_z2 := Rs.wrapping_neg_u32 uq_z2
  return uq_z2

/-- the fixed-point image of `±a` computed by `fdp_one` -/
def q8Delta1 (ui_a : UInt8) (plus : Bool) : Rs.M UInt32 := do
  let mut ui_a := ui_a
  let sign_a ← crate.p8e0.P8E0.sign_ui ui_a
  let sign_z2 := (sign_a != false)
  if sign_a then ui_a := Rs.wrapping_neg_u8 ui_a
  let p2 ← crate.p8e0.P8E0.separate_bits ui_a
  let mut uq_z2 ← Rs.shr_u32 (← Rs.shl_u32 (Rs.cast_u8_u32 p2.2) (Rs.toInt_i32 (23 : Int32))) (Rs.toInt_i8 (← Rs.sub_i8 (18 : Int8) p2.1))
  if (!(sign_z2 != plus)) then uq_z2 := Rs.wrapping_neg_u32 uq_z2
  return uq_z2

/-- signed reading of a 32-bit two's-complement word -/
def sval32 (d : UInt32) : Int := if d.toNat < 2147483648 then d.toNat else (d.toNat : Int) - 4294967296

/-- `64 · value` of a real P8E0 pattern: every P8E0 value is a multiple of minpos = 1/64 (0 for NaR) -/
def v64 (x : Nat) : Int := match Spec.toRat Spec.p8 x with | some q => (q * 64).num | none => 0
/-- `v64` is exact: `value = v64 / 64` -/
def v64Exact (x : Nat) : Bool := match Spec.toRat Spec.p8 x with | some q => (q * 64).den == 1 | none => true

def sgn (plus : Bool) : Int := if plus then 1 else -1

def q8DeltaOk (plus : Bool) (a b : Nat) : Bool :=
  if a == 0 || a == 128 || b == 0 || b == 128 then true else
  match q8Delta (UInt8.ofNat a) (UInt8.ofNat b) plus with
  | .ok d => sval32 d == sgn plus * v64 a * v64 b
  | .error _ => false
def q8Delta1Ok (plus : Bool) (a : Nat) : Bool :=
  if a == 0 || a == 128 then true else
  match q8Delta1 (UInt8.ofNat a) plus with
  | .ok d => sval32 d == sgn plus * v64 a * 64
  | .error _ => false

/-- `to_posit` on an ARBITRARY Q8E0 state `s` (32-bit two's-complement word; value `sval32 s / 4096`; the most negative word is
NaR): the model returns normally the single posit-rule rounding of that value -/
def q8ToPositOk (s : Nat) : Bool :=
  match crate.quire8.convert.Q8E0.to_posit (UInt32.ofNat s).toInt32 with
  | .ok p => Sweep.bits8 p == (if s == 2147483648 then 128 else Spec.round Spec.p8 (mkRat (sval32 (UInt32.ofNat s)) 4096))
  | .error _ => false
end SweepG
