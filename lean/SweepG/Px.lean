import Gen.PX2
import Gen.Core
import Spec
import Sweep
/-! exhaustive checks for the generic-width posits at small widths: the width `N` is an ARGUMENT of the generated
functions, so one model definition serves every width -/
open Gen
namespace SweepG

def emb (n v : Nat) : Int32 := Sweep.p32 (Spec.embed n v)

/-- all `n`-bit operand pairs of a binary PxE2 operation against the (n,2)-posit specification, result left-aligned -/
def px2Bin (g : UInt32 → Int32 → Int32 → Rs.M Int32) (s : Spec.Fmt → Nat → Nat → Nat) (n : Nat) : Bool :=
  Sweep.all2 (2 ^ n) (2 ^ n) fun a b =>
    Sweep.isOk (g (UInt32.ofNat n) (emb n a) (emb n b)) (emb n (s (Spec.px2 n) a b))
def px2Un (g : UInt32 → Int32 → Rs.M Int32) (s : Spec.Fmt → Nat → Nat) (n : Nat) : Bool :=
  Sweep.all1 (2 ^ n) fun a => Sweep.isOk (g (UInt32.ofNat n) (emb n a)) (emb n (s (Spec.px2 n) a))
def px2Tern (g : UInt32 → Int32 → Int32 → Int32 → Rs.M Int32) (s : Spec.Fmt → Nat → Nat → Nat → Nat) (n : Nat) : Bool :=
  Sweep.all3 (2 ^ n) (2 ^ n) (2 ^ n) fun a b c =>
    Sweep.isOk (g (UInt32.ofNat n) (emb n a) (emb n b) (emb n c)) (emb n (s (Spec.px2 n) a b c))

/-- the same for PxE1 (es = 1) -/
def px1Bin (g : UInt32 → Int32 → Int32 → Rs.M Int32) (s : Spec.Fmt → Nat → Nat → Nat) (n : Nat) : Bool :=
  Sweep.all2 (2 ^ n) (2 ^ n) fun a b =>
    Sweep.isOk (g (UInt32.ofNat n) (emb n a) (emb n b)) (emb n (s (Spec.px1 n) a b))
def px1Un (g : UInt32 → Int32 → Rs.M Int32) (s : Spec.Fmt → Nat → Nat) (n : Nat) : Bool :=
  Sweep.all1 (2 ^ n) fun a => Sweep.isOk (g (UInt32.ofNat n) (emb n a)) (emb n (s (Spec.px1 n) a))
/-- widths `lo ≤ n < lo + k` -/
def widths (lo k : Nat) (p : Nat → Bool) : Bool := Sweep.allRange lo k p

/-- conversions: PxE2<n> → P32E2 is exact (same pattern), P32E2/P16E1/P8E0 → PxE2<n> rounds to the (n,2) posit -/
def px2ToP32 (n : Nat) : Bool :=
  Sweep.all1 (2 ^ n) fun a => Sweep.isOk (crate.convert.PxE2.to_p32e2 (UInt32.ofNat n) (emb n a)) (Sweep.p32 (Spec.conv (Spec.px2 n) Spec.p32 a))
def px2FromP16 (n : Nat) : Bool :=
  Sweep.all1 65536 fun a => Sweep.isOk (crate.convert.PxE2.from_p16e1 (UInt32.ofNat n) (Sweep.p16 a)) (emb n (Spec.conv Spec.p16 (Spec.px2 n) a))
def px2FromP8 (n : Nat) : Bool :=
  Sweep.all1 256 fun a => Sweep.isOk (crate.convert.PxE2.from_p8e0 (UInt32.ofNat n) (Sweep.p8 a)) (emb n (Spec.conv Spec.p8 (Spec.px2 n) a))
def px2ToF64 (n : Nat) : Bool :=
  Sweep.all1 (2 ^ n) fun a => match crate.pxe2.convert.PxE2.to_f64 (UInt32.ofNat n) (emb n a) with
    | .ok r => r.bits.toNat == Spec.toF64 (Spec.px2 n) a
    | .error _ => false

/-- generic-width → fixed-width and fixed-width → generic-width conversions, both exponent sizes (`fx` = the generic format of width n) -/
def pxTo8 (fx : Nat → Spec.Fmt) (g : UInt32 → Int32 → Rs.M Int8) (n : Nat) : Bool :=
  Sweep.all1 (2 ^ n) fun a => Sweep.isOk (g (UInt32.ofNat n) (emb n a)) (Sweep.p8 (Spec.conv (fx n) Spec.p8 a))
def pxTo16 (fx : Nat → Spec.Fmt) (g : UInt32 → Int32 → Rs.M Int16) (n : Nat) : Bool :=
  Sweep.all1 (2 ^ n) fun a => Sweep.isOk (g (UInt32.ofNat n) (emb n a)) (Sweep.p16 (Spec.conv (fx n) Spec.p16 a))
def pxTo32 (fx : Nat → Spec.Fmt) (g : UInt32 → Int32 → Rs.M Int32) (n : Nat) : Bool :=
  Sweep.all1 (2 ^ n) fun a => Sweep.isOk (g (UInt32.ofNat n) (emb n a)) (Sweep.p32 (Spec.conv (fx n) Spec.p32 a))
def pxFrom8 (fx : Nat → Spec.Fmt) (g : UInt32 → Int8 → Rs.M Int32) (n : Nat) : Bool :=
  Sweep.all1 256 fun a => Sweep.isOk (g (UInt32.ofNat n) (Sweep.p8 a)) (emb n (Spec.conv Spec.p8 (fx n) a))
def pxFrom16 (fx : Nat → Spec.Fmt) (g : UInt32 → Int16 → Rs.M Int32) (n : Nat) : Bool :=
  Sweep.all1 65536 fun a => Sweep.isOk (g (UInt32.ofNat n) (Sweep.p16 a)) (emb n (Spec.conv Spec.p16 (fx n) a))
def pxToF64 (fx : Nat → Spec.Fmt) (g : UInt32 → Int32 → Rs.M Rs.F64) (n : Nat) : Bool :=
  Sweep.all1 (2 ^ n) fun a => match g (UInt32.ofNat n) (emb n a) with
    | .ok r => r.bits.toNat == Spec.toF64 (fx n) a
    | .error _ => false
/-- generic-to-generic: every `m`-bit source pattern of format `fs m` converted to width `n` of format `ft n` (`g n m src`) -/
def pxGG (fs ft : Nat → Spec.Fmt) (g : UInt32 → UInt32 → Int32 → Rs.M Int32) (m n : Nat) : Bool :=
  Sweep.all1 (2 ^ m) fun a => Sweep.isOk (g (UInt32.ofNat n) (UInt32.ofNat m) (emb m a)) (emb n (Spec.conv (fs m) (ft n) a))
end SweepG
