import Gen.P8
import Spec
import Sweep
/-! check functions for C18 -/
open Gen
namespace SweepG
/-- `x.poly1(&[c0, c1])` on the model equals the fused-dot-product definition -/
def poly1Ok8 (x c0 c1 : Nat) : Bool :=
  Sweep.isOk (crate.polynom.Polynom.poly1.P8E0_P8E0 (Sweep.p8 x) #[Sweep.p8 c0, Sweep.p8 c1]) (Sweep.p8 (Spec.poly Spec.p8 x [c0, c1]))
end SweepG
