import Spec
import Sweep
/-! check function for the monotonicity of `Spec.toRat` in the signed reading of the pattern (C10) -/
namespace SweepG
/-- the pattern whose signed reading is `k - 2^(n-1)` (`k` = position in the signed order, 0 = NaR) -/
def patOfKey (n k : Nat) : Nat := (k + 2 ^ (n - 1)) % 2 ^ n
/-- consecutive patterns in the signed order have strictly increasing real values -/
def monoStep (f : Spec.Fmt) (k : Nat) : Bool :=
  match Spec.toRat f (patOfKey f.n k), Spec.toRat f (patOfKey f.n (k + 1)) with
  | some x, some y => decide (x < y)
  | _, _ => false
end SweepG
