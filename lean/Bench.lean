import Gen.P32
import Spec
import Sweep
open Gen
def modelOnly (lo n : Nat) : Nat := Id.run do
  let mut acc := 0
  for i in [0:n] do
    match crate.p32e2.math.round.P32E2.round (Sweep.p32 (lo + i * 257)) with
    | .ok v => acc := acc + (Sweep.bits32 v) % 7
    | .error _ => acc := acc + 1
  return acc
def specOnly (lo n : Nat) : Nat := Id.run do
  let mut acc := 0
  for i in [0:n] do
    acc := acc + (Spec.roundI Spec.p32 0 ((lo + i * 257) % 4294967296)) % 7
  return acc
def mulOnly (lo n : Nat) : Nat := Id.run do
  let mut acc := 0
  for i in [0:n] do
    match crate.p32e2.ops.P32E2.mul (Sweep.p32 (lo + i * 257)) (Sweep.p32 (lo * 3 + i * 65537)) with
    | .ok v => acc := acc + (Sweep.bits32 v) % 7
    | .error _ => acc := acc + 1
  return acc
def main (args : List String) : IO Unit := do
  let n := args[1]!.toNat!
  let t0 ← IO.monoMsNow
  let r := match args[0]! with | "model" => modelOnly 12345 n | "spec" => specOnly 12345 n | _ => mulOnly 12345 n
  let t1 ← IO.monoMsNow
  IO.println s!"{args[0]!} n={n} acc={r} ms={t1-t0} us/call={(t1-t0).toFloat*1000.0/n.toFloat}"
