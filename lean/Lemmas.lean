import Lemmas.Sweep
import Lemmas.Bits
