import Lemmas.Sweep
