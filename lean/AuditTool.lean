import Lean
/-! `#audit Mod` prints, for every theorem declared in module `Mod`, one line
`AUDIT <theorem> : <axiom> <axiom> ...` (the exact axiom set `#print axioms` would show). -/
open Lean Elab Command

elab "#audit " m:ident : command => do
  let env ← getEnv
  let modName := m.getId
  let some idx := env.getModuleIdx? modName | throwError "module {modName} not imported"
  let names := env.header.moduleData[idx.toNat]!.constNames
  for c in names do
    if c.isInternal then continue
    match env.find? c with
    | some (.thmInfo _) =>
      let axs ← collectAxioms c
      logInfo m!"AUDIT {c} : {" ".intercalate (axs.toList.map toString)}"
    | _ => pure ()
