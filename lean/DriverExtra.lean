import Rs
import Gen
import Spec
/-! Hand-written handlers for the operation families whose inputs are not three scalars:
quire histories, generic-width posits (width `N` is an argument), polynomials, sampling. -/
open Gen
namespace DriverExtra

/-- returns `(model result, spec result?)` or `none` if the line is not one of the extra families -/
def handle (ws : List String) (res : String) : Option (String × Option (Option String)) := none

end DriverExtra
