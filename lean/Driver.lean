import Rs
import Gen
import Spec
import DriverOps
import DriverExtra
/-! Correspondence driver (tie B, DESIGN.md §5): reads `<ty> <op> <hex args..> => <hex result>|PANIC` lines produced by the
Rust harness running the REAL crate, evaluates the generated model `Gen` and the specification `Spec` on the same
inputs, and reports
  MODEL_MISMATCH  — the model disagrees with the implementation (the tie is broken), and
  SPEC_MISMATCH   — the implementation disagrees with the specification (a replayable property failure). -/
open Gen

def hexU64 (s : String) : UInt64 := Id.run do
  let mut v : UInt64 := 0
  for ch in s.toList do
    let d := if ch.isDigit then ch.toNat - 48 else if ch.toNat ≥ 97 then ch.toNat - 87 else ch.toNat - 55
    v := v * 16 + UInt64.ofNat d
  return v

def toHex (n : Nat) : String := String.ofList (Nat.toDigits 16 n)

def main : IO Unit := do
  let stdin ← IO.getStdin
  let stdout ← IO.getStdout
  let mut n := 0; let mut modelBad := 0; let mut specBad := 0; let mut specChecked := 0; let mut unknown := 0
  let mut panics := 0; let mut outside := 0
  repeat
    let line ← stdin.getLine
    if line.isEmpty then break
    let l := line.trimAscii.toString
    let parts := l.splitOn " => "
    if parts.length < 2 then continue
    let res := parts[1]!
    let ws := (parts[0]!.splitOn " ").filter (· ≠ "")
    if ws.length < 2 then continue
    let ty := ws[0]!; let op := ws[1]!
    match DriverExtra.handle ws res with
    | some (modelStr, specStr?) =>
      n := n + 1
      if res == "PANIC" then panics := panics + 1
      if modelStr != res then
        modelBad := modelBad + 1
        stdout.putStrLn s!"MODEL_MISMATCH {l} model={modelStr}"
      match specStr? with
      | some (some sv) =>
        specChecked := specChecked + 1
        if sv != res then
          specBad := specBad + 1
          stdout.putStrLn s!"SPEC_MISMATCH {l} spec={sv}"
      | some none => outside := outside + 1
      | none => pure ()
    | none =>
    let a := hexU64 (ws.getD 2 "0"); let b := hexU64 (ws.getD 3 "0"); let c := hexU64 (ws.getD 4 "0")
    match DriverOps.model ty op a b c with
    | none => unknown := unknown + 1
    | some r =>
      n := n + 1
      let ms := match r with | .ok v => toHex v.toNat | .error _ => "PANIC"
      if res == "PANIC" then panics := panics + 1
      if ms != res then
        modelBad := modelBad + 1
        stdout.putStrLn s!"MODEL_MISMATCH {l} model={ms}"
      match DriverOps.spec ty op a b c with
      | some (some sv) =>
        specChecked := specChecked + 1
        if toHex sv != res then
          specBad := specBad + 1
          stdout.putStrLn s!"SPEC_MISMATCH {l} spec={toHex sv}"
      | some none => outside := outside + 1
      | none => pure ()
  stdout.putStrLn s!"SUMMARY checked={n} model_mismatch={modelBad} spec_checked={specChecked} spec_mismatch={specBad} outside={outside} panics={panics} unknown={unknown}"
