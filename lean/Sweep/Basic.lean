import Rs
import Spec
/-! Executable exhaustive-sweep combinators (Mathlib-free, natively precompiled).  A theorem
`allN n p = true` proved by `native_decide` / `decide +kernel` is lifted to `∀ i < n, p i = true` in `Lemmas.Sweep`. -/
namespace Sweep

/-- `p i` for all `i < n` -/
def all1 (n : Nat) (p : Nat → Bool) : Bool :=
  match n with
  | 0 => true
  | k + 1 => p k && all1 k p

/-- `p i` for all `lo ≤ i < lo + n` (range shards) -/
def allRange (lo n : Nat) (p : Nat → Bool) : Bool := all1 n (fun i => p (lo + i))

def all2 (n m : Nat) (p : Nat → Nat → Bool) : Bool := all1 n (fun a => all1 m (fun b => p a b))
def all3 (n m k : Nat) (p : Nat → Nat → Nat → Bool) : Bool := all1 n (fun a => all1 m (fun b => all1 k (fun c => p a b c)))

/-- tail-recursive variant for very long ranges (native sweeps over 2^24 … 2^32 cases; no stack growth) -/
def allRangeTR.go (lo : Nat) (p : Nat → Bool) : Nat → Bool → Bool
  | 0, acc => acc
  | k + 1, acc => allRangeTR.go lo p k (acc && p (lo + k))
def allRangeTR (lo n : Nat) (p : Nat → Bool) : Bool := allRangeTR.go lo p n true

def isOk {α} [BEq α] (r : Rs.M α) (v : α) : Bool :=
  match r with
  | .ok x => x == v
  | .error _ => false

/-- bit patterns ↔ the Lean machine integers the model uses for posits -/
@[inline] def p8 (n : Nat) : Int8 := (UInt8.ofNat n).toInt8
@[inline] def p16 (n : Nat) : Int16 := (UInt16.ofNat n).toInt16
@[inline] def p32 (n : Nat) : Int32 := (UInt32.ofNat n).toInt32
@[inline] def bits8 (x : Int8) : Nat := x.toUInt8.toNat
@[inline] def bits16 (x : Int16) : Nat := x.toUInt16.toNat
@[inline] def bits32 (x : Int32) : Nat := x.toUInt32.toNat

end Sweep
