import Rs
/-! `Bits α`: machine types as bit patterns (`Nat` below `2^width`), so that one family of sweep combinators and
lifting lemmas serves every operation signature. -/
namespace Sweep

class Bits (α : Type) where
  width : Nat
  ofBits : Nat → α
  bits : α → Nat

instance : Bits Int8 := ⟨8, fun n => (UInt8.ofNat n).toInt8, fun x => x.toUInt8.toNat⟩
instance : Bits Int16 := ⟨16, fun n => (UInt16.ofNat n).toInt16, fun x => x.toUInt16.toNat⟩
instance : Bits Int32 := ⟨32, fun n => (UInt32.ofNat n).toInt32, fun x => x.toUInt32.toNat⟩
instance : Bits Int64 := ⟨64, fun n => (UInt64.ofNat n).toInt64, fun x => x.toUInt64.toNat⟩
instance : Bits UInt8 := ⟨8, UInt8.ofNat, UInt8.toNat⟩
instance : Bits UInt16 := ⟨16, UInt16.ofNat, UInt16.toNat⟩
instance : Bits UInt32 := ⟨32, UInt32.ofNat, UInt32.toNat⟩
instance : Bits UInt64 := ⟨64, UInt64.ofNat, UInt64.toNat⟩
instance : Bits Bool := ⟨1, fun n => n % 2 == 1, fun b => if b then 1 else 0⟩
instance : Bits Nat := ⟨64, id, id⟩   -- `Rs.Enum` (fieldless enums as their variant index); output only
instance : Bits Rs.F64 := ⟨64, fun n => ⟨UInt64.ofNat n⟩, fun x => x.bits.toNat⟩
instance : Bits Rs.F32 := ⟨32, fun n => ⟨UInt32.ofNat n⟩, fun x => x.bits.toNat⟩

/-- the model call returned normally with the bit pattern `v` -/
def okBits {β} [Bits β] (r : Rs.M β) (v : Nat) : Bool :=
  match r with
  | .ok x => Bits.bits x == v
  | .error _ => false

def chk1 {α β} [Bits α] [Bits β] (g : α → Rs.M β) (s : Nat → Nat) (a : Nat) : Bool :=
  okBits (g (Bits.ofBits a)) (s a)
def chk2 {α₁ α₂ β} [Bits α₁] [Bits α₂] [Bits β] (g : α₁ → α₂ → Rs.M β) (s : Nat → Nat → Nat) (a b : Nat) : Bool :=
  okBits (g (Bits.ofBits a) (Bits.ofBits b)) (s a b)
def chk3 {α₁ α₂ α₃ β} [Bits α₁] [Bits α₂] [Bits α₃] [Bits β] (g : α₁ → α₂ → α₃ → Rs.M β) (s : Nat → Nat → Nat → Nat) (a b c : Nat) : Bool :=
  okBits (g (Bits.ofBits a) (Bits.ofBits b) (Bits.ofBits c)) (s a b c)

/-- partial specification: `none` = input outside the property (no constraint beyond returning normally) -/
def chk1o {α β} [Bits α] [Bits β] (g : α → Rs.M β) (s : Nat → Option Nat) (a : Nat) : Bool :=
  match s a with
  | some v => okBits (g (Bits.ofBits a)) v
  | none => match g (Bits.ofBits a) with | .ok _ => true | .error _ => false

end Sweep
