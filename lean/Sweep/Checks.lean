import Sweep.Basic
/-! per-case check functions used by the exhaustive theorems (kept in a precompiled module so that
`native_decide` runs them natively) -/
namespace Sweep
def chk8_1 (g : Int8 → Rs.M Int8) (s : Nat → Nat) (a : Nat) : Bool := isOk (g (p8 a)) (p8 (s a))
def chk8_2 (g : Int8 → Int8 → Rs.M Int8) (s : Nat → Nat → Nat) (a b : Nat) : Bool := isOk (g (p8 a) (p8 b)) (p8 (s a b))
def chk8_3 (g : Int8 → Int8 → Int8 → Rs.M Int8) (s : Nat → Nat → Nat → Nat) (a b c : Nat) : Bool :=
  isOk (g (p8 a) (p8 b) (p8 c)) (p8 (s a b c))
def chk16_1 (g : Int16 → Rs.M Int16) (s : Nat → Nat) (a : Nat) : Bool := isOk (g (p16 a)) (p16 (s a))
def chk16_2 (g : Int16 → Int16 → Rs.M Int16) (s : Nat → Nat → Nat) (a b : Nat) : Bool := isOk (g (p16 a) (p16 b)) (p16 (s a b))
def chk32_1 (g : Int32 → Rs.M Int32) (s : Nat → Nat) (a : Nat) : Bool := isOk (g (p32 a)) (p32 (s a))
end Sweep
