import Sweep.Basic
import Sweep.Bits
import Lemmas.Sweep
/-! generic lifting of exhaustive sweeps over `Bits` types -/
namespace Sweep

class LawfulBits (α : Type) [Bits α] : Prop where
  bits_lt : ∀ x : α, Bits.bits x < 2 ^ (Bits.width α)
  ofBits_bits : ∀ x : α, Bits.ofBits (Bits.bits x) = x

instance : LawfulBits Int8 := ⟨fun x => by simpa [Bits.bits, Bits.width] using x.toUInt8.toNat_lt, fun x => by simp [Bits.bits, Bits.ofBits]⟩
instance : LawfulBits Int16 := ⟨fun x => by simpa [Bits.bits, Bits.width] using x.toUInt16.toNat_lt, fun x => by simp [Bits.bits, Bits.ofBits]⟩
instance : LawfulBits Int32 := ⟨fun x => by simpa [Bits.bits, Bits.width] using x.toUInt32.toNat_lt, fun x => by simp [Bits.bits, Bits.ofBits]⟩
instance : LawfulBits Int64 := ⟨fun x => by simpa [Bits.bits, Bits.width] using x.toUInt64.toNat_lt, fun x => by simp [Bits.bits, Bits.ofBits]⟩
instance : LawfulBits UInt8 := ⟨fun x => by simpa [Bits.bits, Bits.width] using x.toNat_lt, fun x => by simp [Bits.bits, Bits.ofBits]⟩
instance : LawfulBits UInt16 := ⟨fun x => by simpa [Bits.bits, Bits.width] using x.toNat_lt, fun x => by simp [Bits.bits, Bits.ofBits]⟩
instance : LawfulBits UInt32 := ⟨fun x => by simpa [Bits.bits, Bits.width] using x.toNat_lt, fun x => by simp [Bits.bits, Bits.ofBits]⟩
instance : LawfulBits UInt64 := ⟨fun x => by simpa [Bits.bits, Bits.width] using x.toNat_lt, fun x => by simp [Bits.bits, Bits.ofBits]⟩

/-- what an exhaustive sweep of `chk1` establishes: for every input the model returns normally (no trap, in either
build profile) a value whose bit pattern is `s (bits x)` -/
def Holds1 {α β} [Bits α] [Bits β] (g : α → Rs.M β) (s : Nat → Nat) : Prop :=
  ∀ x : α, ∃ r, g x = .ok r ∧ Bits.bits r = s (Bits.bits x)
def Holds2 {α₁ α₂ β} [Bits α₁] [Bits α₂] [Bits β] (g : α₁ → α₂ → Rs.M β) (s : Nat → Nat → Nat) : Prop :=
  ∀ x y, ∃ r, g x y = .ok r ∧ Bits.bits r = s (Bits.bits x) (Bits.bits y)
def Holds3 {α₁ α₂ α₃ β} [Bits α₁] [Bits α₂] [Bits α₃] [Bits β] (g : α₁ → α₂ → α₃ → Rs.M β) (s : Nat → Nat → Nat → Nat) : Prop :=
  ∀ x y z, ∃ r, g x y z = .ok r ∧ Bits.bits r = s (Bits.bits x) (Bits.bits y) (Bits.bits z)
/-- partial specification (`none` = outside the property): the call still returns normally -/
def Holds1o {α β} [Bits α] [Bits β] (g : α → Rs.M β) (s : Nat → Option Nat) : Prop :=
  ∀ x : α, ∃ r, g x = .ok r ∧ ∀ v, s (Bits.bits x) = some v → Bits.bits r = v

theorem okBits_iff {β} [Bits β] (r : Rs.M β) (v : Nat) : okBits r v = true ↔ ∃ x, r = .ok x ∧ Bits.bits x = v := by
  unfold okBits
  cases r with
  | ok x => simp
  | error e => simp

theorem holds1 {α β} [Bits α] [LawfulBits α] [Bits β] (g : α → Rs.M β) (s : Nat → Nat)
    (h : all1 (2 ^ Bits.width α) (chk1 g s) = true) : Holds1 g s := by
  intro x
  have := all1_imp h (Bits.bits x) (LawfulBits.bits_lt x)
  simpa [chk1, okBits_iff, LawfulBits.ofBits_bits] using this

theorem holds2 {α₁ α₂ β} [Bits α₁] [LawfulBits α₁] [Bits α₂] [LawfulBits α₂] [Bits β] (g : α₁ → α₂ → Rs.M β) (s : Nat → Nat → Nat)
    (h : all2 (2 ^ Bits.width α₁) (2 ^ Bits.width α₂) (chk2 g s) = true) : Holds2 g s := by
  intro x y
  have := all2_imp h (Bits.bits x) (LawfulBits.bits_lt x) (Bits.bits y) (LawfulBits.bits_lt y)
  simpa [chk2, okBits_iff, LawfulBits.ofBits_bits] using this

theorem holds3 {α₁ α₂ α₃ β} [Bits α₁] [LawfulBits α₁] [Bits α₂] [LawfulBits α₂] [Bits α₃] [LawfulBits α₃] [Bits β]
    (g : α₁ → α₂ → α₃ → Rs.M β) (s : Nat → Nat → Nat → Nat)
    (h : all3 (2 ^ Bits.width α₁) (2 ^ Bits.width α₂) (2 ^ Bits.width α₃) (chk3 g s) = true) : Holds3 g s := by
  intro x y z
  have := all3_imp h (Bits.bits x) (LawfulBits.bits_lt x) (Bits.bits y) (LawfulBits.bits_lt y) (Bits.bits z) (LawfulBits.bits_lt z)
  simpa [chk3, okBits_iff, LawfulBits.ofBits_bits] using this

theorem holds1o {α β} [Bits α] [LawfulBits α] [Bits β] (g : α → Rs.M β) (s : Nat → Option Nat)
    (h : all1 (2 ^ Bits.width α) (chk1o g s) = true) : Holds1o g s := by
  intro x
  have := all1_imp h (Bits.bits x) (LawfulBits.bits_lt x)
  simp only [chk1o, LawfulBits.ofBits_bits] at this
  cases hs : s (Bits.bits x) with
  | some v =>
    rw [hs] at this
    obtain ⟨r, hr, hv⟩ := (okBits_iff _ _).mp this
    exact ⟨r, hr, fun v' hv' => by cases hv'; exact hv⟩
  | none =>
    rw [hs] at this
    cases hg : g x with
    | ok r => exact ⟨r, rfl, fun v hv => by cases hv⟩
    | error e => rw [hg] at this; simp at this

end Sweep

namespace Sweep
/-- a 3-operand sweep cut into `K` shards of `w` values of the first operand each -/
theorem holds3_of_shards {α₁ α₂ α₃ β} [Bits α₁] [LawfulBits α₁] [Bits α₂] [LawfulBits α₂] [Bits α₃] [LawfulBits α₃] [Bits β]
    (g : α₁ → α₂ → α₃ → Rs.M β) (s : Nat → Nat → Nat → Nat) (K w : Nat) (hKw : K * w = 2 ^ Bits.width α₁) (hw : 0 < w)
    (h : ∀ k, k < K → allRange (k * w) w (fun a => all2 (2 ^ Bits.width α₂) (2 ^ Bits.width α₃) (fun b c => chk3 g s a b c)) = true) :
    Holds3 g s := by
  intro x y z
  have hx := LawfulBits.bits_lt x
  have hk : Bits.bits x / w < K := by
    apply Nat.div_lt_of_lt_mul; rw [Nat.mul_comm]; omega
  have h1 := allRange_imp (h _ hk) (Bits.bits x) (by
      have := Nat.div_mul_le_self (Bits.bits x) w; omega) (by
      have := Nat.lt_div_mul_add hw (a := Bits.bits x); omega)
  have := all2_imp h1 (Bits.bits y) (LawfulBits.bits_lt y) (Bits.bits z) (LawfulBits.bits_lt z)
  simpa [chk3, okBits_iff, LawfulBits.ofBits_bits] using this

/-- a 2-operand sweep cut into `K` shards of `w` values of the first operand each -/
theorem holds2_of_shards {α₁ α₂ β} [Bits α₁] [LawfulBits α₁] [Bits α₂] [LawfulBits α₂] [Bits β]
    (g : α₁ → α₂ → Rs.M β) (s : Nat → Nat → Nat) (K w : Nat) (hKw : K * w = 2 ^ Bits.width α₁) (hw : 0 < w)
    (h : ∀ k, k < K → allRange (k * w) w (fun a => all1 (2 ^ Bits.width α₂) (fun b => chk2 g s a b)) = true) :
    Holds2 g s := by
  intro x y
  have hx := LawfulBits.bits_lt x
  have hk : Bits.bits x / w < K := by
    apply Nat.div_lt_of_lt_mul; rw [Nat.mul_comm]; omega
  have h1 := allRange_imp (h _ hk) (Bits.bits x) (by
      have := Nat.div_mul_le_self (Bits.bits x) w; omega) (by
      have := Nat.lt_div_mul_add hw (a := Bits.bits x); omega)
  have := all1_imp h1 (Bits.bits y) (LawfulBits.bits_lt y)
  simpa [chk2, okBits_iff, LawfulBits.ofBits_bits] using this

/-- a 1-operand sweep cut into `K` shards of `w` values each -/
theorem holds1_of_shards {α β} [Bits α] [LawfulBits α] [Bits β]
    (g : α → Rs.M β) (s : Nat → Nat) (K w : Nat) (hKw : K * w = 2 ^ Bits.width α) (hw : 0 < w)
    (h : ∀ k, k < K → allRange (k * w) w (chk1 g s) = true) : Holds1 g s := by
  intro x
  have hx := LawfulBits.bits_lt x
  have hk : Bits.bits x / w < K := by
    apply Nat.div_lt_of_lt_mul; rw [Nat.mul_comm]; omega
  have h1 := allRange_imp (h _ hk) (Bits.bits x) (by
      have := Nat.div_mul_le_self (Bits.bits x) w; omega) (by
      have := Nat.lt_div_mul_add hw (a := Bits.bits x); omega)
  simpa [chk1, okBits_iff, LawfulBits.ofBits_bits] using h1
end Sweep
