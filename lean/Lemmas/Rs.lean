import Rs
/-! lemmas relating the `Rs` primitives (defined through `Int` for uniformity) to core's machine-integer operations -/
namespace Rs
theorem cast_u32_i32_eq (u : UInt32) : cast_u32_i32 u = u.toInt32 := by
  apply Int32.toBitVec_inj.mp
  simp [cast_u32_i32, ofInt_i32, toInt_u32, Int32.ofInt, Int32.toBitVec, UInt32.toInt32]
theorem cast_i32_u32_eq (x : Int32) : cast_i32_u32 x = x.toUInt32 := by
  apply UInt32.toBitVec_inj.mp
  simp only [cast_i32_u32, ofInt_u32, toInt_i32, UInt32.toBitVec_ofNat', Int32.toBitVec_toUInt32]
  apply BitVec.eq_of_toNat_eq
  rw [BitVec.toNat_ofNat]
  have h : x.toInt = x.toBitVec.toInt := rfl
  rw [h, BitVec.toInt_eq_toNat_bmod]
  have e : (Int.bmod (x.toBitVec.toNat : Int) (2^32)) % 4294967296 = (x.toBitVec.toNat : Int) % 4294967296 := Int.bmod_emod
  rw [e]
  have := x.toBitVec.isLt
  omega
end Rs
