import Sweep.Basic
import Sweep.Checks
/-! lifting exhaustive Boolean sweeps to universally quantified statements -/
namespace Sweep

theorem all1_imp {n : Nat} {p : Nat → Bool} (h : all1 n p = true) : ∀ i, i < n → p i = true := by
  induction n with
  | zero => intro i hi; omega
  | succ k ih =>
    simp only [all1, Bool.and_eq_true] at h
    intro i hi
    by_cases hk : i = k
    · subst hk; exact h.1
    · exact ih h.2 i (by omega)

theorem allRange_imp {lo n : Nat} {p : Nat → Bool} (h : allRange lo n p = true) :
    ∀ i, lo ≤ i → i < lo + n → p i = true := by
  intro i h1 h2
  have := all1_imp h (i - lo) (by omega)
  simpa [show lo + (i - lo) = i by omega] using this

theorem allRangeTR_go_eq (lo : Nat) (p : Nat → Bool) (k : Nat) (acc : Bool) :
    allRangeTR.go lo p k acc = (acc && all1 k (fun i => p (lo + i))) := by
  induction k generalizing acc with
  | zero => simp [allRangeTR.go, all1]
  | succ k ih => simp [allRangeTR.go, all1, ih, Bool.and_assoc]
theorem allRangeTR_eq (lo n : Nat) (p : Nat → Bool) : allRangeTR lo n p = allRange lo n p := by
  simp [allRangeTR, allRange, allRangeTR_go_eq]
theorem allRangeTR_imp {lo n : Nat} {p : Nat → Bool} (h : allRangeTR lo n p = true) :
    ∀ i, lo ≤ i → i < lo + n → p i = true := allRange_imp (allRangeTR_eq lo n p ▸ h)

theorem all2_imp {n m : Nat} {p : Nat → Nat → Bool} (h : all2 n m p = true) :
    ∀ a, a < n → ∀ b, b < m → p a b = true := by
  intro a ha b hb
  exact all1_imp (all1_imp h a ha) b hb

theorem all3_imp {n m k : Nat} {p : Nat → Nat → Nat → Bool} (h : all3 n m k p = true) :
    ∀ a, a < n → ∀ b, b < m → ∀ c, c < k → p a b c = true := by
  intro a ha b hb c hc
  exact all1_imp (all1_imp (all1_imp h a ha) b hb) c hc

theorem isOk_iff {α} [BEq α] [LawfulBEq α] (r : Rs.M α) (v : α) : isOk r v = true ↔ r = .ok v := by
  unfold isOk
  cases r with
  | ok x => simp
  | error e => simp

theorem p8_bits8 (x : Int8) : p8 (bits8 x) = x := by
  simp [p8, bits8]
theorem bits8_lt (x : Int8) : bits8 x < 256 := by
  simp [bits8]; exact x.toUInt8.toNat_lt
theorem p16_bits16 (x : Int16) : p16 (bits16 x) = x := by
  simp [p16, bits16]
theorem bits16_lt (x : Int16) : bits16 x < 65536 := by
  simp [bits16]; exact x.toUInt16.toNat_lt
theorem p32_bits32 (x : Int32) : p32 (bits32 x) = x := by
  simp [p32, bits32]
theorem bits32_lt (x : Int32) : bits32 x < 4294967296 := by
  simp [bits32]; exact x.toUInt32.toNat_lt

/-! one-line lifts: an exhaustive sweep of a check function gives the universally quantified statement -/
theorem forall8_1 (g : Int8 → Rs.M Int8) (s : Nat → Nat) (h : all1 256 (chk8_1 g s) = true) :
    ∀ x, g x = .ok (p8 (s (bits8 x))) := by
  intro x
  have := all1_imp h (bits8 x) (bits8_lt x)
  simpa [chk8_1, isOk_iff, p8_bits8] using this
theorem forall8_2 (g : Int8 → Int8 → Rs.M Int8) (s : Nat → Nat → Nat) (h : all2 256 256 (chk8_2 g s) = true) :
    ∀ x y, g x y = .ok (p8 (s (bits8 x) (bits8 y))) := by
  intro x y
  have := all2_imp h (bits8 x) (bits8_lt x) (bits8 y) (bits8_lt y)
  simpa [chk8_2, isOk_iff, p8_bits8] using this
theorem forall8_3 (g : Int8 → Int8 → Int8 → Rs.M Int8) (s : Nat → Nat → Nat → Nat)
    (h : all3 256 256 256 (chk8_3 g s) = true) :
    ∀ x y z, g x y z = .ok (p8 (s (bits8 x) (bits8 y) (bits8 z))) := by
  intro x y z
  have := all3_imp h (bits8 x) (bits8_lt x) (bits8 y) (bits8_lt y) (bits8 z) (bits8_lt z)
  simpa [chk8_3, isOk_iff, p8_bits8] using this
theorem forall16_1 (g : Int16 → Rs.M Int16) (s : Nat → Nat) (h : all1 65536 (chk16_1 g s) = true) :
    ∀ x, g x = .ok (p16 (s (bits16 x))) := by
  intro x
  have := all1_imp h (bits16 x) (bits16_lt x)
  simpa [chk16_1, isOk_iff, p16_bits16] using this

end Sweep
