/-! shared helpers of the two correspondence drivers -/
namespace DriverCommon
def hexNat (s : String) : Nat := Id.run do
  let mut v : Nat := 0
  for ch in s.toList do
    let d := if ch.isDigit then ch.toNat - 48 else if ch.toNat ≥ 97 then ch.toNat - 87 else ch.toNat - 55
    v := v * 16 + d
  return v
def hexU64 (s : String) : UInt64 := UInt64.ofNat (hexNat s)
def toHex (n : Nat) : String := String.ofList (Nat.toDigits 16 n)
def toHexW (n w : Nat) : String :=
  let s := toHex n
  String.ofList (List.replicate (w - s.length) '0') ++ s

/-- generic loop: `eval ws res` (`res` = the implementation's result, needed by predicate-style specifications) returns `none` (line not handled), `some none` (handled, nothing to compare:
outside the property / no spec) or `some (some expected)`; a line disagrees when `expected ≠ res`. -/
def loop (tag : String) (eval : List String → String → Option (Option String)) : IO Unit := do
  let stdin ← IO.getStdin
  let stdout ← IO.getStdout
  let mut n := 0; let mut bad := 0; let mut skipped := 0; let mut outside := 0; let mut panics := 0
  repeat
    let line ← stdin.getLine
    if line.isEmpty then break
    let l := line.trimAscii.toString
    let parts := l.splitOn " => "
    if parts.length < 2 then continue
    let res := parts[1]!
    let ws := (parts[0]!.splitOn " ").filter (· ≠ "")
    if ws.length < 2 then continue
    match eval ws res with
    | none => skipped := skipped + 1
    | some none => outside := outside + 1
    | some (some exp) =>
      n := n + 1
      if res == "PANIC" then panics := panics + 1
      if exp != res then
        bad := bad + 1
        stdout.putStrLn s!"{tag}_MISMATCH {l} {tag.toLower}={exp}"
  stdout.putStrLn s!"SUMMARY {tag} compared={n} mismatch={bad} outside={outside} skipped={skipped} impl_panics={panics}"
end DriverCommon
