import SweepG.Quire
import SweepG.Sample
