import SweepG.Quire
