import SweepG.Quire
import SweepG.Quire8
import SweepG.Sample
import SweepG.Poly
import SweepG.Px
import SweepG.Mono
import SweepG.Quire16
