"""Hand-written Lean models of the three iterator-based Q32E2 functions the translator cannot express
(core iterator adaptors: iter_mut().rev(), zip, while-let over next()).  Written loop-for-loop from the Rust.
Each override is pinned to the sha256 of the Rust item's source text: when the item changes the override is
reported STALE (gen_index.json: overrides[...].stale) and ./check treats theorems that depend on it as a
broken tie (DESIGN.md 2.3).  They are validated by the correspondence run (tie B) only."""
import hashlib, os, re
H='softposit[0000]::'
DEPS=[H+'p32e2::{impl#0}::separate_bits_tmp',H+'p32e2::{impl#0}::calculate_regime',H+'quire32::{impl#0}::is_zero',H+'quire32::{impl#0}::is_nar',
      H+'quire32::{impl#0}::to_bits',H+'quire32::{impl#0}::from_bits',H+'p32e2::{impl#0}::sign_ui',H+'p32e2::{impl#0}::pack_to_ui',
      H+'p32e2::{impl#0}::with_sign',H+'p32e2::{impl#0}::from_bits',H+'u64_zero_shr',H+'quire32::{impl#0}::ZERO',H+'quire32::{impl#0}::NAR',
      H+'p32e2::{impl#0}::ZERO',H+'p32e2::{impl#0}::NAR']
COMMON='''
/-- two's complement negate of an 8-limb big-endian array, as the Rust loop does it -/
def ovr.q32_negate (v : Array UInt64) : Array UInt64 := Id.run do
  let mut v := v
  let mut j := 8
  let mut found := false
  -- from the last limb backwards: first non-zero limb is negated, all limbs before it are complemented
  for step in [0:8] do
    let i := 7 - step
    if !found then
      if v[i]! > 0 then
        v := v.set! i (Rs.wrapping_neg_u64 v[i]!)
        found := true
    else
      v := v.set! i (~~~ v[i]!)
  return v
/-- 512-bit ripple-carry addition, limb 7 is least significant -/
def ovr.q32_add (a b : Array UInt64) : Array UInt64 := Id.run do
  let mut r : Array UInt64 := Array.replicate 8 0
  let mut c : Nat := 0
  for step in [0:8] do
    let i := 7 - step
    let s := a[i]!.toNat + b[i]!.toNat + c
    r := r.set! i (UInt64.ofNat (s % 2^64))
    c := s / 2^64
  return r
/-- place frac64 at bit position first_pos (counted from the left of the 512-bit word) -/
def ovr.q32_place (frac64_z : UInt64) (first_pos : Int32) : Rs.M (Array UInt64) := do
  let mut u : Array UInt64 := Array.replicate 8 0
  let mut done := false
  for i in [0:8] do
    if !done then
      let lim ← Rs.mul_usize (← Rs.add_usize (UInt64.ofNat i) 1) 64
      if decide (first_pos < Rs.cast_usize_i32 lim) then
        let sr : Int16 := Rs.cast_i32_i16 (← Rs.sub_i32 first_pos (Rs.cast_usize_i32 (← Rs.mul_usize (UInt64.ofNat i) 64)))
        u := u.set! i (← Rs.shr_u64 frac64_z (Rs.toInt_i16 sr))
        if i != 7 && sr != 0 then
          u := u.set! (i+1) (← Rs.shl_u64 frac64_z (Rs.toInt_i16 (← Rs.sub_i16 64 sr)))
        done := true
  return u
def ovr.q32_finish (q : Rs.Q32E2) (u_z2 : Array UInt64) (neg : Bool) : Rs.M (Unit × Rs.Q32E2) := do
  let u_z1 ← crate.quire32.Q32E2.to_bits q
  let u_z2 := if neg then ovr.q32_negate u_z2 else u_z2
  let u_z := ovr.q32_add u_z1 u_z2
  let q_z ← crate.quire32.Q32E2.from_bits u_z
  if (← crate.quire32.Q32E2.is_nar q_z) then return ((), crate.quire32.Q32E2.ZERO) else return ((), q_z)
'''
FDP='''
def crate.quire32.ops.fdp (q : Rs.Q32E2) (ui_a ui_b : UInt32) (plus : Bool) : Rs.M (Unit × Rs.Q32E2) := do
  let mut ui_a := ui_a
  let mut ui_b := ui_b
  if (← crate.quire32.Q32E2.is_nar q) || ui_a == 0x80000000 || ui_b == 0x80000000 then return ((), crate.quire32.Q32E2.NAR)
  if ui_a == 0 || ui_b == 0 then return ((), q)
  let sign_a ← crate.p32e2.P32E2.sign_ui ui_a
  let sign_b ← crate.p32e2.P32E2.sign_ui ui_b
  let sign_z2 := sign_a != sign_b
  if sign_a then ui_a := Rs.wrapping_neg_u32 ui_a
  if sign_b then ui_b := Rs.wrapping_neg_u32 ui_b
  let (k0, tmp) ← crate.p32e2.P32E2.separate_bits_tmp ui_a
  let mut k_a := k0
  let mut exp_a : Int32 := Rs.cast_u32_i32 (← Rs.shr_u32 tmp 29)
  let frac_a := (← Rs.shl_u32 tmp 2) ||| 0x80000000
  let (k_b, tmp) ← crate.p32e2.P32E2.separate_bits_tmp ui_b
  k_a ← Rs.add_i8 k_a k_b
  exp_a ← Rs.add_i32 exp_a (Rs.cast_u32_i32 (← Rs.shr_u32 tmp 29))
  let mut frac64_z ← Rs.mul_u64 (Rs.cast_u32_u64 frac_a) (Rs.cast_u32_u64 ((← Rs.shl_u32 tmp 2) ||| 0x80000000))
  if decide (exp_a > 3) then
    k_a ← Rs.add_i8 k_a 1
    exp_a := exp_a &&& 3
  let rcarry := (← Rs.shr_u64 frac64_z 63) != 0
  if rcarry then
    exp_a ← Rs.add_i32 exp_a 1
    if decide (exp_a > 3) then
      k_a ← Rs.add_i8 k_a 1
      exp_a := exp_a &&& 3
  else
    frac64_z ← Rs.shl_u64 frac64_z 1
  let first_pos ← Rs.sub_i32 (← Rs.sub_i32 271 (← Rs.shl_i32 (Rs.cast_i8_i32 k_a) 2)) exp_a
  let u_z2 ← ovr.q32_place frac64_z first_pos
  ovr.q32_finish q u_z2 (!(sign_z2 != plus))
'''
FDP1='''
def crate.quire32.ops.fdp_one (q : Rs.Q32E2) (ui_a : UInt32) (plus : Bool) : Rs.M (Unit × Rs.Q32E2) := do
  let mut ui_a := ui_a
  if (← crate.quire32.Q32E2.is_nar q) || ui_a == 0x80000000 then return ((), crate.quire32.Q32E2.NAR)
  if ui_a == 0 then return ((), q)
  let sign_a ← crate.p32e2.P32E2.sign_ui ui_a
  if sign_a then ui_a := Rs.wrapping_neg_u32 ui_a
  let (k0, tmp) ← crate.p32e2.P32E2.separate_bits_tmp ui_a
  let mut k_a := k0
  let mut exp_a : Int32 := Rs.cast_u32_i32 (← Rs.shr_u32 tmp 29)
  let frac_a := (← Rs.shl_u32 tmp 2) ||| 0x80000000
  let mut frac64_z ← Rs.shl_u64 (Rs.cast_u32_u64 frac_a) 31
  if decide (exp_a > 3) then
    k_a ← Rs.add_i8 k_a 1
    exp_a := exp_a &&& 3
  let rcarry := (← Rs.shr_u64 frac64_z 63) != 0
  if rcarry then
    exp_a ← Rs.add_i32 exp_a 1
    if decide (exp_a > 3) then
      k_a ← Rs.add_i8 k_a 1
      exp_a := exp_a &&& 3
  else
    frac64_z ← Rs.shl_u64 frac64_z 1
  let first_pos ← Rs.sub_i32 (← Rs.sub_i32 271 (← Rs.shl_i32 (Rs.cast_i8_i32 k_a) 2)) exp_a
  let u_z2 ← ovr.q32_place frac64_z first_pos
  ovr.q32_finish q u_z2 (!(sign_a != plus))
'''
TOPOSIT='''
def crate.quire32.convert.Q32E2.to_posit (self : Rs.Q32E2) : Rs.M Int32 := do
  let mut bits_more := false
  let mut frac64_a : UInt64 := 0
  if (← crate.quire32.Q32E2.is_zero self) then return crate.p32e2.P32E2.ZERO
  if (← crate.quire32.Q32E2.is_nar self) then return crate.p32e2.P32E2.NAR
  let mut u_z ← crate.quire32.Q32E2.to_bits self
  let sign := (u_z[0]! &&& 0x8000000000000000) != 0
  if sign then u_z := ovr.q32_negate u_z
  let mut no_lz : Int64 := 0
  let mut i := 0
  let mut fin := false
  for step in [0:8] do
    if !fin && step == i then
      let u := u_z[i]!
      if u == 0 then
        no_lz ← Rs.add_isize no_lz 64
        i := i + 1
      else
        let mut tmp := u
        let mut no_lztmp : Int64 := 0
        for _ in [0:64] do
          if (← Rs.shr_u64 tmp 63) == 0 then
            no_lztmp ← Rs.add_isize no_lztmp 1
            tmp ← Rs.shl_u64 tmp 1
        no_lz ← Rs.add_isize no_lz no_lztmp
        frac64_a := tmp
        let mut nexti := i + 1
        if i != 7 && no_lztmp != 0 then
          let w := u_z[i+1]!
          frac64_a ← Rs.add_u64 frac64_a (← Rs.shr_u64 w (Rs.toInt_isize (← Rs.sub_isize 64 no_lztmp)))
          if (w &&& (← Rs.sub_u64 (← Rs.shl_u64 1 (Rs.toInt_isize (← Rs.sub_isize 64 no_lztmp))) 1)) != 0 then bits_more := true
          nexti := i + 2
        for jj in [nexti:8] do
          if u_z[jj]! > 0 then bits_more := true
        fin := true
  let k_a : Int8 := Rs.cast_isize_i8 (← Rs.shr_isize (← Rs.sub_isize 271 no_lz) 2)
  let mut exp_a : Int32 ← Rs.sub_i32 (← Rs.sub_i32 271 (Rs.cast_isize_i32 no_lz)) (Rs.cast_i8_i32 (← Rs.shl_i8 k_a 2))
  let (regime, reg_sa, reg_a) ← crate.p32e2.P32E2.calculate_regime k_a
  let mut u_a : UInt32 := 0
  if decide (reg_a > 30) then
    u_a := if reg_sa then 0x7FFFFFFF else 1
  else
    frac64_a := frac64_a &&& 0x7FFFFFFFFFFFFFFF
    let shift ← Rs.add_u32 reg_a 35
    let mut frac_a : UInt32 := Rs.cast_u64_u32 (← crate.u64_zero_shr frac64_a shift)
    let mut bit_n_plus_one := false
    if decide (reg_a <= 28) then
      bit_n_plus_one := ((← Rs.shr_u64 frac64_a (Rs.toInt_u32 (← Rs.sub_u32 shift 1))) &&& 1) != 0
      exp_a ← Rs.shl_i32 exp_a (Rs.toInt_u32 (← Rs.sub_u32 28 reg_a))
      if (← Rs.shl_u64 frac64_a (Rs.toInt_u32 (← Rs.sub_u32 65 shift))) != 0 then bits_more := true
    else
      if reg_a == 30 then
        bit_n_plus_one := (exp_a &&& 2) != 0
        bits_more := bits_more || ((exp_a &&& 1) != 0)
        exp_a := 0
      else if reg_a == 29 then
        bit_n_plus_one := (exp_a &&& 1) != 0
        exp_a ← Rs.shr_i32 exp_a 1
      if decide (frac64_a > 0) then
        frac_a := 0
        bits_more := true
    u_a ← crate.p32e2.P32E2.pack_to_ui regime (Rs.cast_i32_u32 exp_a) frac_a
    if bit_n_plus_one then
      u_a ← Rs.add_u32 u_a ((u_a &&& 1) ||| Rs.cast_bool_u32 bits_more)
  crate.p32e2.P32E2.with_sign (← crate.p32e2.P32E2.from_bits u_a) sign
'''

FROMQPX2='''
def crate.quire32.convert.PxE2.From_refQ32E2.from (N : UInt32) (q_a : Rs.Q32E2) : Rs.M Int32 := do
  let mut bits_more := false
  let mut frac64_a : UInt64 := 0
  if (← crate.quire32.Q32E2.is_zero q_a) then return crate.pxe2.PxE2.ZERO N
  if (← crate.quire32.Q32E2.is_nar q_a) then return crate.pxe2.PxE2.NAR N
  let mut u_z ← crate.quire32.Q32E2.to_bits q_a
  let sign := (u_z[0]! &&& 0x8000000000000000) != 0
  if sign then u_z := ovr.q32_negate u_z
  let mut no_lz : Int64 := 0
  let mut i := 0
  let mut fin := false
  for step in [0:8] do
    if !fin && step == i then
      let u := u_z[i]!
      if u == 0 then
        no_lz ← Rs.add_isize no_lz 64
        i := i + 1
      else
        let mut tmp := u
        let mut no_lztmp : Int64 := 0
        for _ in [0:64] do
          if (← Rs.shr_u64 tmp 63) == 0 then
            no_lztmp ← Rs.add_isize no_lztmp 1
            tmp ← Rs.shl_u64 tmp 1
        no_lz ← Rs.add_isize no_lz no_lztmp
        frac64_a := tmp
        let mut nexti := i + 1
        if i != 7 && no_lztmp != 0 then
          let w := u_z[i+1]!
          frac64_a ← Rs.add_u64 frac64_a (← Rs.shr_u64 w (Rs.toInt_isize (← Rs.sub_isize 64 no_lztmp)))
          if (w &&& (← Rs.sub_u64 (← Rs.shl_u64 1 (Rs.toInt_isize (← Rs.sub_isize 64 no_lztmp))) 1)) != 0 then bits_more := true
          nexti := i + 2
        for jj in [nexti:8] do
          if u_z[jj]! > 0 then bits_more := true
        fin := true
  let k_a : Int8 := Rs.cast_isize_i8 (← Rs.shr_isize (← Rs.sub_isize 271 no_lz) 2)
  let mut exp_a : Int32 ← Rs.sub_i32 (← Rs.sub_i32 271 (Rs.cast_isize_i32 no_lz)) (Rs.cast_i8_i32 (← Rs.shl_i8 k_a 2))
  let (regime0, reg_sa, reg_a) ← crate.pxe2.PxE2.calculate_regime N k_a
  let mut regime := regime0
  let mut u_a : UInt32 := 0
  if decide (reg_a > (← Rs.sub_u32 N 2)) then
    if reg_sa then
      u_a := 0x7FFFFFFF &&& (← crate.pxe2.PxE2.mask N)
    else
      u_a ← Rs.shl_u32 1 (Rs.toInt_u32 (← Rs.sub_u32 32 N))
  else
    frac64_a := frac64_a &&& 0x7FFFFFFFFFFFFFFF
    let shift ← Rs.add_u32 reg_a 35
    let mut frac_a : UInt32 := Rs.cast_u64_u32 (← crate.u64_zero_shr frac64_a shift)
    let mut bit_n_plus_one := false
    if decide (reg_a < N) then
      if decide ((← Rs.add_u32 reg_a 4) <= N) then
        bit_n_plus_one := ((← Rs.shr_u64 frac64_a (Rs.toInt_u32 (← Rs.sub_u32 (← Rs.add_u32 shift 31) N))) &&& 1) != 0
        if (← Rs.shl_u64 frac64_a (Rs.toInt_u32 (← Rs.sub_u32 (← Rs.add_u32 33 N) shift))) != 0 then bits_more := true
      else
        if reg_a == (← Rs.sub_u32 N 2) then
          bit_n_plus_one := (exp_a &&& 2) != 0
          bits_more := bits_more || ((exp_a &&& 1) != 0)
          exp_a := 0
        else if reg_a == (← Rs.sub_u32 N 3) then
          bit_n_plus_one := (exp_a &&& 1) != 0
          exp_a := exp_a &&& 2
        if decide (frac64_a > 0) then
          frac_a := 0
          bits_more := true
    else
      if reg_sa then
        regime := regime &&& (← crate.pxe2.PxE2.mask N)
      else
        regime ← Rs.shl_u32 regime (Rs.toInt_u32 (← Rs.sub_u32 32 N))
      exp_a := 0
      frac_a := 0
    if decide (reg_a <= 28) then
      exp_a ← Rs.shl_i32 exp_a (Rs.toInt_u32 (← Rs.sub_u32 28 reg_a))
    else
      exp_a ← Rs.shr_i32 exp_a (Rs.toInt_u32 (← Rs.sub_u32 reg_a 28))
    u_a := (← crate.pxe2.PxE2.pack_to_ui N regime (Rs.cast_i32_u32 exp_a) frac_a) &&& (← crate.pxe2.PxE2.mask N)
    if bit_n_plus_one then
      u_a ← Rs.add_u32 u_a (← Rs.shl_u32 (((← Rs.shr_u32 u_a (Rs.toInt_u32 (← Rs.sub_u32 32 N))) &&& 1) ||| Rs.cast_bool_u32 bits_more) (Rs.toInt_u32 (← Rs.sub_u32 32 N)))
  crate.pxe2.PxE2.from_bits N (← crate.u32_with_sign u_a sign)
'''
DEPSPX=DEPS+[H+'pxe2::{impl#1}::calculate_regime',H+'pxe2::{impl#1}::pack_to_ui',H+'pxe2::{impl#1}::mask',H+'pxe2::{impl#0}::from_bits',H+'pxe2::{impl#0}::ZERO',H+'pxe2::{impl#0}::NAR',H+'u32_with_sign',H+'quire32::ops::fdp']
OVERRIDES={
 H+'quire32::ops::fdp':(COMMON+FDP,DEPS),
 H+'quire32::ops::fdp_one':(FDP1,DEPS+[H+'quire32::ops::fdp']),
 H+'quire32::convert::{impl#4}::to_posit':(TOPOSIT,DEPS+[H+'quire32::ops::fdp']),
 H+'quire32::convert::{impl#6}::from':(FROMQPX2,DEPSPX),
}

PINS={
 H+'quire32::ops::fdp':('src/quire32/ops.rs','pub(super) fn fdp('),
 H+'quire32::ops::fdp_one':('src/quire32/ops.rs','pub(super) fn fdp_one('),
 H+'quire32::convert::{impl#4}::to_posit':('src/quire32/convert.rs','pub fn to_posit('),
 H+'quire32::convert::{impl#6}::from':('src/quire32/convert.rs','impl<const N: u32> From<&Q32E2> for PxE2<{ N }> {','fn from(q_a: &Q32E2) -> Self {'),
}
PINNED_SHA={
 H+'quire32::ops::fdp':'09775c15169a701cec1894c85e467b95b44cedbce14c930178ead419dde9ec90',
 H+'quire32::ops::fdp_one':'c641a6c71c414fb2d3a9d2fe89ba564c3f2bb6c4e172e5d6c7796a3ff7883005',
 H+'quire32::convert::{impl#4}::to_posit':'b8d14760bbfe590154ed16c604bd841fe1c26679f14d7a68f576111d232c1ab4',
 H+'quire32::convert::{impl#6}::from':'0e5c3ba073eafe7970362b92bdc13b0182e53599508222dc5cb5e856e00e8924',
}
def item_source(repo,file,start,then=None):
    """source text of the Rust item that begins with `start` (if `then` is given: the first occurrence of `then` after `start`),
    up to its matching closing brace"""
    try: txt=open(os.path.join(repo,file)).read()
    except OSError: return None
    i=txt.find(start)
    if i<0: return None
    if then is not None:
        i=txt.find(then,i)
        if i<0: return None
    j=txt.find('{',i); d=0
    for k in range(j,len(txt)):
        if txt[k]=='{': d+=1
        elif txt[k]=='}':
            d-=1
            if d==0: return txt[i:k+1]
    return None
def override_status(repo):
    out={}
    for p,pin in PINS.items():
        f,start=pin[0],pin[1]
        src=item_source(repo,*pin)
        sha=hashlib.sha256(src.encode()).hexdigest() if src is not None else None
        out[p]={'file':f,'item':start,'sha256':sha,'pinned':PINNED_SHA.get(p),'stale':sha!=PINNED_SHA.get(p)}
    return out
