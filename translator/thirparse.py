import re, sys, collections
class Node:
    __slots__=('text','kids','ind')
    def __init__(s,text,ind): s.text=text; s.kids=[]; s.ind=ind
    def __repr__(s): return f"Node({s.text!r},{len(s.kids)})"
HASH=re.compile(r'\b(\w+)\[[0-9a-f]{4}\]::')
CLOSERS={'}',')',']','},','),','],',',','})','})',')]'}
def parse_bodies(path):
    """yield (header, root Node) per body; tree by indentation"""
    cur=None; stack=[]
    with open(path) as f:
        for raw in f:
            line=HASH.sub(r'\1[0000]::',raw.rstrip('\n'))
            if not line.strip(): continue
            if line.startswith('DefId('):
                if cur is not None: yield cur
                cur=Node(line,-1); stack=[cur]; continue
            if cur is None: continue
            ind=len(line)-len(line.lstrip(' '))
            t=line.strip()
            if t in CLOSERS: continue
            n=Node(t,ind)
            while stack[-1].ind>=ind: stack.pop()
            stack[-1].kids.append(n); stack.append(n)
    if cur is not None: yield cur
