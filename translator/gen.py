#!/usr/bin/env python3
"""Regenerate the Lean model `Gen` from /repo's current working tree (tie A of DESIGN.md §2.2).

  gen.py [--repo /repo] [--work /verif/work] [--out /verif/lean/Gen] [--force]

1. fingerprint src/**, Cargo.toml, Cargo.lock of the working tree;
2. if it changed: dump THIR + HIR with the nightly rustc, translate every body;
3. lay the definitions out in call-graph order into Gen/Core.lean (everything reachable from
   more than one type group) and one file per type group, and rewrite a file only if its
   content changed, so `lake build` re-checks exactly what depends on changed functions;
4. write work/gen_index.json: per Rust path the Lean name, file, status (translated /
   override / failed + reason), and the sha256 of every override's Rust source item.
"""
import sys, os, re, json, hashlib, subprocess, collections, time, argparse

HERE = os.path.dirname(os.path.abspath(__file__))
sys.path.insert(0, HERE)

def fingerprint(repo):
    h = hashlib.sha256()
    files = []
    for root, _, fs in os.walk(os.path.join(repo, 'src')):
        for f in fs:
            files.append(os.path.join(root, f))
    for f in ('Cargo.toml', 'Cargo.lock'):
        files.append(os.path.join(repo, f))
    for f in sorted(files):
        h.update(os.path.relpath(f, repo).encode() + b'\0')
        try:
            h.update(open(f, 'rb').read())
        except FileNotFoundError:
            h.update(b'<missing>')
        h.update(b'\0')
    return h.hexdigest()

def dump(repo, work):
    env = dict(os.environ, CARGO_NET_OFFLINE='true', CARGO_TARGET_DIR=os.path.join(work, 'target-thir'))
    env.pop('RUSTFLAGS', None)
    for kind, out in (('thir-tree', 'thir.txt'), ('hir-tree', 'hirtree.txt')):
        with open(os.path.join(work, out), 'w') as fo, open(os.path.join(work, out + '.err'), 'w') as fe:
            r = subprocess.run(['cargo', '+nightly', 'rustc', '--offline', '--lib', '--features', 'rand', '--',
                                '-Zunpretty=' + kind], cwd=repo, env=env, stdout=fo, stderr=fe)
        if r.returncode != 0:
            sys.stderr.write(open(os.path.join(work, out + '.err')).read()[-3000:])
            raise SystemExit('gen.py: rustc %s dump failed (the crate does not compile?)' % kind)

GROUPS = {'p8e0': 'P8', 'quire8': 'P8', 'p16e1': 'P16', 'quire16': 'P16', 'p32e2': 'P32', 'quire32': 'P32',
          'pxe1': 'PX1', 'pxe2': 'PX2'}
def group_of(path):
    base = path.split('@@')[0]
    q = re.sub(r'^softposit\[\w+\]::', '', base)
    seg = q.split('::')[0]
    g = GROUPS.get(seg)
    if '@@' in path:   # generic instantiation: lives with the type it is instantiated at
        ta = path.split('@@')[1]
        for k, v in (('P8E0', 'P8'), ('P16E1', 'P16'), ('P32E2', 'P32')):
            if k in ta: return v
    if g is None:
        return 'Core'
    return g

HEADER = ('set_option linter.unusedVariables false\n'
          'set_option maxRecDepth 8000\nset_option maxHeartbeats 4000000\nnamespace Gen\n\n')

def main():
    ap = argparse.ArgumentParser()
    ap.add_argument('--repo', default='/repo')
    ap.add_argument('--work', default='/verif/work')
    ap.add_argument('--out', default='/verif/lean/Gen')
    ap.add_argument('--force', action='store_true')
    a = ap.parse_args()
    os.makedirs(a.work, exist_ok=True); os.makedirs(a.out, exist_ok=True)
    fp = fingerprint(a.repo)
    fpfile = os.path.join(a.work, 'gen.fingerprint')
    tfp = hashlib.sha256(b''.join(open(os.path.join(HERE, f), 'rb').read() for f in sorted(os.listdir(HERE)) if f.endswith('.py'))).hexdigest()
    stamp = fp + ' ' + tfp
    if not a.force and os.path.exists(fpfile) and open(fpfile).read().strip() == stamp \
            and os.path.exists(os.path.join(a.work, 'gen_index.json')) and os.path.exists(os.path.join(a.out, 'Core.lean')):
        print('gen.py: up to date (fingerprint %s)' % fp[:12]); return
    t0 = time.time()
    dump(a.repo, a.work)
    t1 = time.time()
    import thir2lean as T
    from overrides import OVERRIDES, override_status
    bodies, sigs = T.load(os.path.join(a.work, 'thir.txt'), os.path.join(a.work, 'hirtree.txt'))
    for p_, b_ in bodies.items():   # prepass: compute generic parameter lists
        try: T.Fn(b_, sigs)
        except Exception: pass
    ovst = override_status(a.repo)
    done = {}; order = []; failed = {}; calls = {}
    def visit(p):
        if p in done or p in failed: return
        if p in OVERRIDES:
            code, deps = OVERRIDES[p]
            done[p] = None
            for c in deps: visit(c)
            bad = [c for c in deps if c in failed]
            if bad:
                del done[p]; failed[p] = 'dep ' + bad[0][-40:]; return
            done[p] = code; calls[p] = list(deps); order.append(p); return
        base, _, ta = p.partition('@@')
        if base not in bodies: failed[p] = 'no body'; return
        try:
            f = T.Fn(bodies[base], sigs, ta.split('|') if ta else None); code = f.translate()
        except T.Unsupported as e: failed[p] = str(e); return
        except Exception as e: failed[p] = 'EXC ' + repr(e)[:60]; return
        done[p] = None
        for c in sorted(f.calls): visit(c)
        bad = [c for c in f.calls if c in failed]
        if bad:
            del done[p]; failed[p] = 'dep ' + bad[0][-40:]; return
        done[p] = code; calls[p] = sorted(f.calls); order.append(p)
    sys.setrecursionlimit(100000)
    for p in list(bodies): visit(p)
    # generic default methods of Polynom<T> are instantiated on demand; C18 needs every degree at the three posit types
    for p in list(bodies):
        if re.search(r'::polynom::Polynom::poly\w+$', p):
            for T_ in ('p8e0::P8E0', 'p16e1::P16E1', 'p32e2::P32E2'):
                visit(p + '@@' + T_ + '|' + T_)
    # ---- layout: Core = callee-closure of everything called across groups or living outside a group
    grp = {p: group_of(p) for p in order}
    core = set(p for p in order if grp[p] == 'Core')
    for p in order:
        for c in calls[p]:
            if c in grp and grp[c] != grp[p]: core.add(c)
    changed = True
    while changed:
        changed = False
        for p in order:
            if p in core:
                for c in calls[p]:
                    if c in grp and c not in core: core.add(c); changed = True
    files = collections.OrderedDict((g, []) for g in ('Core', 'P8', 'P16', 'P32', 'PX1', 'PX2'))
    where = {}
    for p in order:
        g = 'Core' if p in core else grp[p]
        files[g].append(p); where[p] = g
    # P32 is large: cut off the elementary functions (sleef and what depends on it)
    sleef = set()
    for p in files['P32']:
        if '::sleef::' in p or any(c in sleef for c in calls[p]): sleef.add(p)
    files['P32M'] = [p for p in files['P32'] if p in sleef]
    files['P32'] = [p for p in files['P32'] if p not in sleef]
    for p in files['P32M']: where[p] = 'P32M'
    imports = {'Core': ['Rs'], 'P8': ['Gen.Core'], 'P16': ['Gen.Core'], 'P32': ['Gen.Core'], 'PX1': ['Gen.Core'],
               'PX2': ['Gen.Core'], 'P32M': ['Gen.P32']}
    nwritten = 0
    for g, ps in files.items():
        txt = ''.join('import %s\n' % i for i in imports[g]) + HEADER
        for p in ps: txt += done[p] + '\n\n'
        txt += 'end Gen\n'
        fn = os.path.join(a.out, g + '.lean')
        if not os.path.exists(fn) or open(fn).read() != txt:
            open(fn, 'w').write(txt); nwritten += 1
    allf = os.path.join(os.path.dirname(a.out), 'Gen.lean')
    alltxt = ''.join('import Gen.%s\n' % g for g in files)
    if not os.path.exists(allf) or open(allf).read() != alltxt: open(allf, 'w').write(alltxt)
    index = {'fingerprint': fp, 'translated': len(order), 'failed': len(failed), 'bodies': len(bodies),
             'overrides': ovst,
             'functions': {p: {'lean': T.mangle(p.split('@@')[0]) + ('.' + T.inst_suffix(p.split('@@')[1].split('|')) if '@@' in p else ''),
                               'file': where[p], 'status': 'override' if p in OVERRIDES else 'translated'} for p in order},
             'not_translated': failed}
    json.dump(index, open(os.path.join(a.work, 'gen_index.json'), 'w'), indent=0, sort_keys=True)
    open(fpfile, 'w').write(stamp)
    c = collections.Counter(re.sub(r'dep .*', 'dep', v) for v in failed.values())
    print('gen.py: %d bodies, %d translated, %d not (%s); %d files rewritten; dump %.0fs translate %.0fs' % (
        len(bodies), len(order), len(failed), dict(c.most_common(6)), nwritten, t1 - t0, time.time() - t1))
    print('gen.py: sizes ' + ' '.join('%s=%d' % (g, len(ps)) for g, ps in files.items()))

if __name__ == '__main__':
    main()
