#!/usr/bin/env python3
"""THIR (rustc -Zunpretty=thir-tree) -> Lean 4 translator (see DESIGN.md §2.1).
Every Rust body becomes a Lean definition in the monad Rs.M = Except Rs.Trap with
debug-profile (checked) integer semantics; loops become fuel-recursive functions."""
import re, sys, collections, struct
from thirparse import parse_bodies, Node

INT = {'u8':(8,False),'u16':(16,False),'u32':(32,False),'u64':(64,False),'usize':(64,False),'u128':(128,False),
       'i8':(8,True),'i16':(16,True),'i32':(32,True),'i64':(64,True),'isize':(64,True),'i128':(128,True)}
LEANTY = {'u8':'UInt8','u16':'UInt16','u32':'UInt32','u64':'UInt64','usize':'UInt64','u128':'Rs.U128',
          'i8':'Int8','i16':'Int16','i32':'Int32','i64':'Int64','isize':'Int64','i128':'Rs.I128',
          'bool':'Bool','()':'Unit','f64':'Rs.F64','f32':'Rs.F32','!':'Empty','str':'Unit',
          'quire32::Q32E2':'Rs.Q32E2','Q32E2':'Rs.Q32E2',
          'MulAddType':'Rs.Enum','core::cmp::Ordering':'Rs.Enum','core::num::FpCategory':'Rs.Enum'}
NEWTYPES = {'p8e0::P8E0':'i8','p16e1::P16E1':'i16','p32e2::P32E2':'i32','quire8::Q8E0':'i32','quire16::Q16E1':'i128'}
ENUMS = {'MulAddType','core::cmp::Ordering','core::num::FpCategory'}
NOISE=('span:','hir_id:','temp_scope_id:','region_scope:','ty_span:','safety_mode:','targeted_by_break:','from_hir_call:','fn_span:','is_primary:','is_shorthand:','lint_level:','init_scope:','remainder_scope:','self_kind:','if_then_scope:','scope:')

class Unsupported(Exception): pass

def _all(n):
    out=[n]
    for k in n.kids: out+=_all(k)
    return out
def _find_binding(n):
    for x in _all(n):
        if x.text.startswith('Binding {') and kid(x,'name:') is not None: return x
    return None
def kid(n, prefix):
    for k in n.kids:
        if k.text.startswith(prefix): return k
    return None
def find_first(n,prefix):
    for k in n.kids:
        if k.text.startswith(prefix): return k
        if not k.text.startswith('Expr'):
            r=find_first(k,prefix)
            if r is not None: return r
    return None
def split_top(s):
    out=[];d=0;cur=''
    for ch in s:
        if ch in '([<': d+=1
        if ch in ')]>': d-=1
        if ch==',' and d==0: out.append(cur.strip());cur=''
        else: cur+=ch
    if cur.strip(): out.append(cur.strip())
    return out
def norm_ty(t):
    t=t.strip()
    t=re.sub(r'softposit\[\w+\]::','',t)
    while True:
        t2=re.sub(r"^&'?\{?\w*\}?\s*(mut\s+)?",'',t) if t.startswith('&') else t
        if t2==t: break
        t=t2.strip()
    m=re.match(r'pxe([12])::PxE[12]<',t)
    if m: return 'i32#px'+m.group(1)
    return t
def raw_ty(t):
    t=re.sub(r'softposit\[\w+\]::','',t.strip())
    t=re.sub(r"&'?\{?\w*\}?\s*(mut\s+)?",'&',t)
    return re.sub(r'(PxE[12])<[^>]*>',r'\1<_>',t)
def is_mutref(t):
    t=re.sub(r'softposit\[\w+\]::','',t.strip())
    return bool(re.match(r"^&'?\{?\w*\}?\s*mut\s",t))
def prim(t):
    t=norm_ty(t)
    if t.startswith('i32#px'): return 'i32'
    return NEWTYPES.get(t,t)
def lean_ty(t):
    t=prim(t)
    if t in LEANTY: return LEANTY[t]
    if t.startswith('(') and t.endswith(')'):
        parts=split_top(t[1:-1])
        if len(parts)==0: return 'Unit'
        if len(parts)==1: return lean_ty(parts[0])
        return '('+' × '.join(lean_ty(p) for p in parts)+')'
    m=re.match(r'core::option::Option<(.*)>$',t)
    if m: return f'(Option {lean_ty(m.group(1))})'
    m=re.match(r'\[(.*); (\d+)_usize\]$',t) or re.match(r'\[(.*)\]$',t)
    if m: return f'(Array {lean_ty(m.group(1))})'
    m=re.match(r"core::slice::Iter<'?\{?\w*\}?,?\s*(.*)>$",t)
    if m: return f'(Rs.ArrIter {lean_ty(m.group(1))})'
    m=re.match(r'core::ops::Range(From|To)?<usize>$',t)
    if m: return 'Rs.RangeIter'
    raise Unsupported('type '+t[:40])
def tuple_arity(t):
    t=prim(t)
    if t.startswith('(') and t.endswith(')'): return len(split_top(t[1:-1]))
    return 1
def proj(base,idx,n):
    if n==1: return base
    return f'{base}'+'.2'*idx+('.1' if idx<n-1 else '')

def defpath(s):
    m=re.search(r'DefId\(\d+:\d+ ~ ([^)]*)\)',s)
    return m.group(1) if m else None
NAMES={}
OTAG={}
def mangle(path):
    if path in NAMES: return NAMES[path]
    path=re.sub(r'^softposit\[\w+\]::','',path)
    path=path.replace('{impl#','impl').replace('{closure#','closure').replace('}','')
    return 'crate.'+re.sub(r'[^A-Za-z0-9_:]','_',path).replace('::','.')
def generic_consts(argstr):
    """const generic args in a FnDef arg list, as Lean terms or names"""
    out=[]
    for a in split_top(argstr):
        a=a.strip()
        m=re.match(r'^(N|M|BITS)/#\d+$',a)
        if m: out.append(m.group(1)); continue
        m=re.match(r'^\{?\s*(\d+)_u32\s*\}?$',a)
        if m: out.append(f'({m.group(1)} : UInt32)'); continue
        m=re.match(r'^(\d+)_u32$',a)
        if m: out.append(f'({m.group(1)} : UInt32)'); continue
    return out

TRAITIDX={}
GENCACHE={}
TYGENERIC=set()
ABSTRACT=set()
GENARITY={}
SELFOF={}
def tykey(t):
    try: return lean_ty(t)
    except Unsupported: return '?'+norm_ty(t)
class Sig:
    def __init__(s,path,body):
        s.path=path; s.params=[]; s.mutrefs=[]; s.consts=[]
        params=kid(body,'params:')
        for i,p in enumerate(params.kids):
            t=kid(p,'ty:').text[4:]
            s.params.append(t)
            if is_mutref(t): s.mutrefs.append(i)
        b=kid(body,'body:').kids[0]
        s.ret=kid(b,'ty:').text[4:]
        s.is_const=not params.kids and bool(re.search(r'::[A-Z][A-Z0-9_]*$',path))

QMAP={'p8e0::P8E0':'quire8::Q8E0','p16e1::P16E1':'quire16::Q16E1','p32e2::P32E2':'quire32::Q32E2'}
def subst_text(t,targs):
    def rep(m):
        i=int(m.group(1)); return targs[i] if i<len(targs) else m.group(0)
    t=re.sub(r'\b[A-Za-z_]\w*/#(\d+)',lambda m: rep(m) if not re.match(r'(N|M|BITS)/#',m.group(0)) else m.group(0),t)
    def alias(m):
        a=re.sub(r'softposit\[\w+\]::','',split_top(m.group(1))[0])
        return QMAP.get(a,m.group(0))
    t=re.sub(r'Alias\(AliasTy \{ args: \[([^\]]*)\], kind: Projection \{ def_id: DefId\(\d+:\d+ ~ softposit\[\w+\]::AssociatedQuire::Q\) \}, \.\. \}\)',alias,t)
    return t
def subst_tree(n,targs):
    m=Node(subst_text(n.text,targs),n.ind)
    m.kids=[subst_tree(k,targs) for k in n.kids]
    return m
def inst_suffix(targs):
    return '_'.join(re.sub(r'[^A-Za-z0-9]','',re.sub(r'softposit\[\w+\]::|\w+::','',a)) for a in targs)
class Fn:
    def __init__(s, body, sigs, targs=None):
        s.targs=targs
        if targs:
            body=subst_tree(body,targs)
        s.body=body; s.sigs=sigs; s.path=defpath(body.text); s.name=mangle(s.path)+('.'+inst_suffix(targs) if targs else ''); s.sig=Sig(s.path,body) if targs else sigs[s.path]
        s.vars={}; s.tmp=0; s.loops=[]; s.calls=set(); s.lines=[]; s.loopctx=[]; s.vartys={}
        # generic const params used in this body (N, M)
        txt=[]
        def coll(n):
            txt.append(n.text)
            for k in n.kids: coll(k)
        coll(body)
        allt='\n'.join(t for t in txt if not t.startswith(NOISE))
        allg=set(re.findall(r'\b([A-Za-z_][A-Za-z0-9_]*)/#\d+',allt))
        pos={int(i):g for g,i in re.findall(r'\b(N|M|BITS)/#(\d+)',allt)}
        ar=max([GENARITY.get(s.path,0)]+[i+1 for i in pos])
        s.gen=[pos.get(i,f'g_{i}') for i in range(ar)]
        GENCACHE[s.path]=s.gen
        s.is_sample = s.path.endswith('::sample') and (allg-set(s.gen)-{'N'})=={'R'}
        s.rng_params=[]
        if s.is_sample: s.sig.mutrefs=[]; s.sig.params=[]
        if not s.is_sample and (allg-set(s.gen)-{'N'} or ('N' in allg and 'to_f64' in allt and 'ToPrimitive' in allt)):
            raise Unsupported('generic type parameters')
        if s.targs: GENCACHE[s.path+'@@'+'|'.join(s.targs)]=[]
    def fresh(s,p='t'): s.tmp+=1; return f'{p}_{s.tmp}'
    def vid(s,text): return re.search(r'\)\.(\d+)\)\)',text).group(1)
    def var(s,idtext): return s.vars[s.vid(idtext)]
    def bindvar(s,b):
        name=kid(b,'name:').text.split('"')[1]; vid=s.vid(kid(b,'var:').text)
        ln=f'{name}_{vid}'
        s.vars[vid]=ln; ty=kid(b,'ty:').text[4:]
        s.vartys[ln]=lean_ty(ty)
        return ln,ty
    def unwrap(s,e):
        while True:
            if not e.text.startswith('Expr'): raise Unsupported('expected Expr got '+e.text[:30])
            ty=kid(e,'ty:').text[4:]; kk=kid(e,'kind:')
            k=kk.kids[0] if kk.kids else Node(kk.text[6:].strip(),0)
            if k.text.startswith('Scope'):
                e=kid(k,'value:').kids[0]; continue
            return ty,k
    def sub(s,n,field):
        f=kid(n,field)
        if f is None or not f.kids: raise Unsupported('missing '+field+' in '+n.text[:20])
        return f.kids[0]
    def lit(s,ty,k):
        t=prim(ty)
        m=re.search(r'Int\(Pu128\((\d+)\)',k.text)
        if m:
            v=int(m.group(1))
            if 'neg: true' in k.text: v=-v
            if t in ('u128','i128'): return f'(Rs.ofInt_{t} ({v}))'
            return f'({v} : {LEANTY[t]})'
        m=re.search(r'Bool\((\w+)\)',k.text)
        if m: return m.group(1)
        m=re.search(r'Float\("?([^",)]+)"?',k.text)
        if m:
            txt=m.group(1).replace('_','')
            v=float(txt)
            if 'neg: true' in k.text: v=-v
            if t=='f64': return f'(Rs.F64.ofBits {struct.unpack("<Q",struct.pack("<d",v))[0]})'
            return f'(Rs.F32.ofBits {struct.unpack("<I",struct.pack("<f",v))[0]})'
        if 'Str(' in k.text: return '()'
        raise Unsupported('literal '+k.text[:50])
    # classification ---------------------------------------------------------
    def callee(s,k):
        fty=kid(k,'ty:').text
        p=defpath(fty)
        m=re.search(r'\), \[(.*)\]\)\s*$',fty)
        gargs=m.group(1) if m else ''
        return p,gargs
    def is_pure(s,e):
        ty,k=s.unwrap(e); h=k.text
        if h.startswith(('VarRef','Literal(','NamedConst','ZstLiteral','ConstParam')): return True
        if h.startswith('Binary'):
            op=kid(k,'op:').text[4:]; lt=prim(s.unwrap(s.sub(k,'lhs:'))[0])
            if op in ('Add','Sub','Mul','Div','Rem','Shl','Shr') and lt in INT: return False
            return s.is_pure(s.sub(k,'lhs:')) and s.is_pure(s.sub(k,'rhs:'))
        if h.startswith('LogicalOp'): return s.is_pure(s.sub(k,'lhs:')) and s.is_pure(s.sub(k,'rhs:'))
        if h.startswith('Unary'):
            op=kid(k,'op:').text[4:]; t=prim(ty)
            return (op=='Not' or t in('f64','f32')) and s.is_pure(s.sub(k,'arg:'))
        if h.startswith('Cast'): return s.is_pure(s.sub(k,'source:'))
        if h.startswith(('Use','ValueTypeAscription','NeverToAny','Pointer')): return s.is_pure(s.sub(k,'source:'))
        if h.startswith('Deref'): return s.is_pure(k.kids[0])
        if h.startswith('Borrow'): return s.is_pure(s.sub(k,'arg:'))
        if h.startswith('Tuple'): return all(s.is_pure(x) for x in kid(k,'fields:').kids)
        if h.startswith('Array'): return all(s.is_pure(x) for x in kid(k,'fields:').kids)
        if h.startswith('Field'): return s.is_pure(s.sub(k,'lhs:'))
        if h.startswith('Adt'): return all(s.is_pure(f.kids[0]) for f in s.adt_fields(k))
        if h.startswith('If'):
            el=kid(k,'else:')
            if s.unwrap(s.sub(k,'cond:'))[1].text.startswith('Let'): return False
            return el is not None and all(s.is_pure(s.sub(k,f)) for f in ('cond:','then:','else:'))
        if h.startswith('Block'):
            return not kid(k,'stmts:').kids and bool(kid(k,'expr:').kids) and s.is_pure(kid(k,'expr:').kids[0])
        return False
    def adt_fields(s,k):
        out=[]
        def rec(n):
            for c in n.kids:
                if re.match(r'field \d+:',c.text): out.append(c)
                elif not c.text.startswith('Expr'): rec(c)
        rec(k); return out
    def is_simple(s,e):
        if s.is_pure(e): return True
        ty,k=s.unwrap(e); h=k.text
        if h.startswith('Binary'): return s.is_simple(s.sub(k,'lhs:')) and s.is_simple(s.sub(k,'rhs:'))
        if h.startswith('Unary'): return s.is_simple(s.sub(k,'arg:'))
        if h.startswith('Cast'): return s.is_simple(s.sub(k,'source:'))
        if h.startswith(('Use','ValueTypeAscription','Pointer')): return s.is_simple(s.sub(k,'source:'))
        if h.startswith('Deref'): return s.is_simple(k.kids[0])
        if h.startswith('Borrow'): return s.is_simple(s.sub(k,'arg:'))
        if h.startswith(('Tuple','Array')): return all(s.is_simple(x) for x in kid(k,'fields:').kids)
        if h.startswith('Field'): return s.is_simple(s.sub(k,'lhs:'))
        if h.startswith('Index'): return s.is_simple(s.sub(k,'lhs:')) and s.is_simple(s.sub(k,'index:'))
        if h.startswith('Adt'): return all(s.is_simple(f.kids[0]) for f in s.adt_fields(k))
        if h.startswith('Call'):
            p,_=s.callee(k)
            if p is None: return False
            if p.endswith('::rng::Rng::gen_range'): return True
            if p.startswith('core[') and ('::panicking::' in p or p.endswith('::Iterator::next') or p.endswith('::mem::swap')): return False
            if p in s.sigs and s.sigs[p].mutrefs: return False
            if any(is_mutref(s.unwrap(x)[0]) or s.unwrap(x)[1].text.startswith('Borrow') and 'Mut' in kid(s.unwrap(x)[1],'borrow_kind:').text for x in kid(k,'args:').kids): return False
            return all(s.is_simple(x) for x in kid(k,'args:').kids)
        if h.startswith('Block'):
            return not kid(k,'stmts:').kids and bool(kid(k,'expr:').kids) and s.is_simple(kid(k,'expr:').kids[0])
        return False
    # terms ------------------------------------------------------------------
    def term(s,e):
        ty,k=s.unwrap(e); h=k.text; t=prim(ty)
        if h.startswith('VarRef'): return s.var(kid(k,'id:').text)
        if h.startswith('Literal('): return s.lit(ty,k)
        if h.startswith('ConstParam'):
            return re.search(r'param: (\w+)/#',kid(k,'param:').text).group(1)
        if h.startswith('NamedConst'):
            p=defpath(kid(k,'def_id:').text)
            if not p.startswith('softposit'):
                return s.core_const(p,t)
            if p not in s.sigs:
                path=re.sub(r'\[\w+\]','',p); m=re.match(r'(.*)::(\w+)$',path)
                cands=[c for c in TRAITIDX.get((m.group(1),m.group(2)),[]) if c in s.sigs and norm_ty(s.sigs[c].ret)==norm_ty(ty)]
                if len(cands)>1:
                    a0=re.sub(r'^args: \[|\]$','',kid(k,'args:').text); a0=split_top(a0)[0] if a0 else ''
                    a0=re.sub(r'<.*','',norm_ty(a0)).split('::')[-1]
                    cands=[c for c in cands if SELFOF.get(c)==a0]
                if len(cands)!=1: raise Unsupported(f'assoc const {path[-30:]} ({len(cands)} cands)')
                p=cands[0]
            s.calls.add(p)
            g=generic_consts(re.sub(r'^args: \[|\]$','',kid(k,'args:').text))
            return '('+mangle(p)+''.join(' '+x for x in g)+')' if g else mangle(p)
        if h.startswith(('Use','ValueTypeAscription','Pointer','NeverToAny')): return s.term(s.sub(k,'source:'))
        if h.startswith('Deref'): return s.term(k.kids[0])
        if h.startswith('Borrow'): return s.term(s.sub(k,'arg:'))
        if h.startswith('Block'): return s.term(kid(k,'expr:').kids[0])
        if h.startswith('Tuple'):
            fs=[s.term(x) for x in kid(k,'fields:').kids]
            return '('+', '.join(fs)+')' if fs else '()'
        if h.startswith('Array'):
            return '#['+', '.join(s.term(x) for x in kid(k,'fields:').kids)+']'
        if h.startswith('Field'):
            lhs=s.sub(k,'lhs:'); lty,_=s.unwrap(lhs); nt=norm_ty(lty)
            idx=int(kid(k,'name:').text.split()[1])
            if nt in NEWTYPES or nt.startswith('i32#px'): return s.term(lhs)
            if nt=='quire32::Q32E2': return f'({s.term(lhs)}).f{idx}'
            if nt.startswith('('): return '('+proj(s.term(lhs),idx,tuple_arity(lty))+')'
            raise Unsupported('field of '+nt[:30])
        if h.startswith('Index'):
            return f'(← Rs.index {s.term(s.sub(k,"lhs:"))} {s.term(s.sub(k,"index:"))})'
        if h.startswith('Adt'):
            nt=norm_ty(ty); fs=s.adt_fields(k)
            if nt in NEWTYPES or nt.startswith('i32#px'): return s.term(fs[0].kids[0])
            if nt=='quire32::Q32E2': return '(Rs.Q32E2.mk '+' '.join(s.term(f.kids[0]) for f in fs)+')'
            if nt in ENUMS:
                vi=int(find_first(k,'variant_index:').text.split()[1]); return f'({vi} : Rs.Enum)'
            m=re.match(r'core::option::Option<',nt)
            if m:
                vi=int(find_first(k,'variant_index:').text.split()[1])
                return 'none' if vi==0 else f'(some {s.term(fs[0].kids[0])})'
            if nt.startswith('core::ops::RangeFrom'): return f'(Rs.RangeIter.mk {s.term(fs[0].kids[0])} 0)'
            if nt.startswith('core::ops::RangeTo'): return f'(Rs.RangeIter.mk 0 {s.term(fs[0].kids[0])})'
            if nt.startswith('core::ops::Range<'): return f'(Rs.RangeIter.mk {s.term(fs[0].kids[0])} {s.term(fs[1].kids[0])})'
            raise Unsupported('Adt '+nt[:30])
        if h.startswith('LogicalOp'):
            op=kid(k,'op:').text[4:]; a=s.term(s.sub(k,'lhs:')); b=s.term(s.sub(k,'rhs:'))
            return f'({a} {"||" if op=="Or" else "&&"} {b})'
        if h.startswith('If'):
            return f'(if {s.term(s.sub(k,"cond:"))} then {s.term(s.sub(k,"then:"))} else {s.term(s.sub(k,"else:"))})'
        if h.startswith('Unary'):
            op=kid(k,'op:').text[4:]; a=s.term(s.sub(k,'arg:'))
            if op=='Not': return f'(!{a})' if t=='bool' else (f'(~~~{a})' if t not in('u128','i128') else f'(Rs.not_{t} {a})')
            if op=='Neg':
                if t in ('f64','f32'): return f'(Rs.neg_{t} {a})'
                return f'(← Rs.neg_{t} {a})'
        if h.startswith('Cast'):
            src=s.sub(k,'source:'); sty,_=s.unwrap(src); st=prim(sty)
            if st in ENUMS: st='enum'
            if st==t: return s.term(src)
            return f'(Rs.cast_{st}_{t} {s.term(src)})'
        if h.startswith('Binary'):
            op=kid(k,'op:').text[4:]; L=s.sub(k,'lhs:'); R=s.sub(k,'rhs:')
            lt=prim(s.unwrap(L)[0]); rt=prim(s.unwrap(R)[0])
            a=s.term(L); b=s.term(R)
            if lt in ('f64','f32'):
                return f'(Rs.{op.lower()}_{lt} {a} {b})'
            if op in ('Eq','Ne','Lt','Le','Gt','Ge'):
                sym={'Eq':'==','Ne':'!=','Lt':'<','Le':'<=','Gt':'>','Ge':'>='}[op]
                if op in('Eq','Ne'): return f'({a} {sym} {b})'
                return f'(decide ({a} {sym} {b}))'
            if op in ('BitAnd','BitOr','BitXor'):
                if lt=='bool': return f'({a} {"&&" if op=="BitAnd" else "||" if op=="BitOr" else "!="} {b})'
                return f'({a} {"&&&" if op=="BitAnd" else "|||" if op=="BitOr" else "^^^"} {b})'
            if op in ('Add','Sub','Mul','Div','Rem'):
                return f'(← Rs.{op.lower()}_{lt} {a} {b})'
            if op in ('Shl','Shr'):
                return f'(← Rs.{op.lower()}_{lt} {a} (Rs.toInt_{rt} {b}))'
        if h.startswith('Call') and (s.callee(k)[0] or '').endswith('::rng::Rng::gen_range'):
            # `rng.gen_range(lo..hi)`: the drawn value becomes an extra INPUT of the model, with the contract lo <= r < hi
            rty,rk=s.unwrap(kid(k,'args:').kids[1])
            nm=f'rng_{len(s.rng_params)+1}'
            if rk.text.startswith('Call') and 'RangeInclusive' in rty:
                # `lo..=hi` is `RangeInclusive::new(lo, hi)`: contract lo <= r <= hi
                ra=kid(rk,'args:').kids; lo=s.term(ra[0]); hi=s.term(ra[1])
                s.rng_params.append((nm,LEANTY[t]))
                return f'(← Rs.gen_range_incl_{t} {nm} {lo} {hi})'
            fs=s.adt_fields(rk)
            lo=s.term(fs[0].kids[0]); hi=s.term(fs[1].kids[0])
            s.rng_params.append((nm,LEANTY[t]))
            return f'(← Rs.gen_range_{t} {nm} {lo} {hi})'
        if h.startswith('Call'):
            p,gargs=s.callee(k); args=[s.term(x) for x in kid(k,'args:').kids]; s.cur_gargs=gargs
            argtys=[prim(s.unwrap(x)[0]) for x in kid(k,'args:').kids]
            if p.startswith('core[') or p.startswith('std[') or p.startswith('num_traits['):
                s.cur_argtys=[tykey(s.unwrap(x)[0]) for x in kid(k,'args:').kids]
                s.cur_rawargtys=[raw_ty(s.unwrap(x)[0]) for x in kid(k,'args:').kids]; s.cur_rawret=raw_ty(ty)
                return s.core_call(p,gargs,args,argtys,t)
            if p not in s.sigs or p in ABSTRACT:
                s.cur_argtys=[tykey(s.unwrap(x)[0]) for x in kid(k,'args:').kids]
                s.cur_rawargtys=[raw_ty(s.unwrap(x)[0]) for x in kid(k,'args:').kids]; s.cur_rawret=raw_ty(ty)
                r=s.resolve_trait(p,t)
                if r is None: raise Unsupported('unresolved local trait call '+p[-30:])
                p=r; gargs=''
            name=mangle(p)
            if p in TYGENERIC:
                targs=split_top(gargs)
                if any(re.search(r'/#\d',a) for a in targs if not re.match(r'(N|M|BITS)/#',a)): raise Unsupported('generic type parameters')
                s.calls.add(p+'@@'+'|'.join(targs)); name=name+'.'+inst_suffix(targs); gargs=''
            else: s.calls.add(p)
            g=generic_consts(gargs)
            allargs=g+args
            call=name+''.join(' '+a for a in allargs)
            if p in s.sigs and s.sigs[p].is_const: return f'({call})'
            return f'(← {call})'
        raise Unsupported('term '+h[:40])
    def resolve_trait(s,p,retty):
        path=re.sub(r'\[\w+\]','',p)
        m=re.match(r'(.*)::(\w+)$',path)
        if not m: return None
        tr,meth=m.group(1),m.group(2)
        if tr=='core::convert::Into' and meth=='into': tr,meth='core::convert::From','from'
        cands=TRAITIDX.get((tr,meth),[])
        if not cands: return None
        want=tuple(s.cur_argtys); retty=LEANTY.get(retty,retty)
        out=[c for c in cands if c in s.sigs and tuple(tykey(x) for x in s.sigs[c].params)==want and tykey(s.sigs[c].ret)==retty]
        raw=tuple(s.cur_rawargtys)
        o2=[c for c in out if tuple(raw_ty(x) for x in s.sigs[c].params)==raw and raw_ty(s.sigs[c].ret)==s.cur_rawret]
        if len(o2)==1: return o2[0]
        if len(o2)>1:
            g=re.sub(r'softposit\[\w+\]::|\w+::','',getattr(s,'cur_gargs','') or '')
            o3=[c for c in o2 if OTAG.get(re.match(r'(.*\{impl#\d+\})',c).group(1)) and re.search(r'\b'+re.escape(OTAG[re.match(r'(.*\{impl#\d+\})',c).group(1)])+r'\b',g)]
            if len(o3)==1: return o3[0]
            raise Unsupported('ambiguous trait call '+p[-30:])
        return None
    def impl_generics(s,r,gargs):
        ar=max(GENARITY.get(r,0), len(Fn.gen_of(s.sigs,r)))
        found=[]
        for m in re.finditer(r'\b(N|M|BITS)/#\d+|<\s*\{?\s*(\d+)_u32',gargs):
            x=m.group(1) or f'({m.group(2)} : UInt32)'
            if x not in found: found.append(x)
        return found[:ar] if ar else []
    @staticmethod
    def gen_of(sigs,r):
        return GENCACHE.get(r,[])
    def core_const(s,p,t):
        nm=p.split('::')[-1]; path=re.sub(r'\[\w+\]','',p)
        NUMIMPL=['i8','i16','i32','i64','i128','isize','u8','u16','u32','u64','u128','usize']
        m=re.match(r'core::num::\{impl#(\d+)\}::',path)
        if m: q=NUMIMPL[int(m.group(1))]
        else:
            m=re.match(r'core::(f32|f64)::',path); q=m.group(1) if m else t
        return f'Rs.const_{q}_{nm}'
    def core_call(s,p,gargs,args,argtys,t):
        fn=p.split('::')[-1]
        path=re.sub(r'^\w+\[\w+\]::','',p)
        if '::intrinsics::transmute' in p or fn=='transmute':
            return f'(Rs.transmute_{argtys[0]}_{t} {args[0]})'.replace('[u64; 2_usize]','arr')
        if fn in ('from_bits','to_bits') and ('f64' in path or 'f32' in path or argtys[0] in('f64','f32') or t in ('f64','f32')):
            return f'(Rs.{fn}_{t if fn=="from_bits" else argtys[0]} {args[0]})'
        if p.endswith('::IntoIterator::into_iter'):
            if 'Range' in s.cur_rawargtys[0]: return args[0]
            return f'(Rs.arr_iter {args[0]})'
        if p.endswith('::index::Index::index') or p.endswith('::index::IndexMut::index_mut'):
            if 'RangeFrom' in s.cur_rawargtys[1]: return f'(← Rs.slice_from {args[0]} {args[1]})'
            if 'RangeTo' in s.cur_rawargtys[1]: return f'(← Rs.slice_to {args[0]} {args[1]})'
            if 'Range<' in s.cur_rawargtys[1]: return f'(← Rs.slice_range {args[0]} {args[1]})'
            return f'(← Rs.index {args[0]} {args[1]})'
        r=s.resolve_trait(p,t)
        if r is not None:
            s.calls.add(r)
            g=s.impl_generics(r,gargs)
            return f'(← {mangle(r)}'+''.join(' '+a for a in g+args)+')'
        if re.search(r'::cmp::(PartialEq|PartialOrd|Ord)::(\w+)$',p) and argtys and argtys[0] in INT:
            return f'(Rs.{fn}_{argtys[0]} '+' '.join(args)+')'
        if '::convert::From::from' in p or '::convert::Into::into' in p:
            raise Unsupported('trait call '+path[:40])
        if re.search(r'::ops::\w+::(\w+)::\w+$',p) or '::cmp::' in p or '::iter::' in p or '::fmt::' in p or '::str::' in p or '::clone::' in p or '::default::' in p or '::hash::' in p:
            raise Unsupported('trait call '+path[:40])
        if not argtys: return f'Rs.{fn}_{t}'
        if fn in ('abs','pow') and argtys[0] in INT: return f'(← Rs.{fn}_{argtys[0]} '+' '.join(args)+')'
        a0=argtys[0] if argtys[0] in LEANTY and not argtys[0].startswith('core') else 'x'
        partial=('checked_' in fn)
        return f'(Rs.{fn}_{a0} '+' '.join(args)+')'
    # statements -------------------------------------------------------------
    def emit(s,ind,line): s.lines.append('  '*ind+line)
    def operand(s,e,ind):
        ty,k=s.unwrap(e)
        if s.is_simple(e) and not k.text.startswith(('If','Match')): return s.term(e)
        t=s.fresh('o'); s.emit(ind,f'let mut {t} : {lean_ty(ty)} := default'); s.assign_to(e,t,ind); return t
    def retval(s,v):
        if s.sig.mutrefs:
            extra=[s.paramnames[i] for i in s.sig.mutrefs]
            return '('+', '.join([v]+extra)+')'
        return v
    def do_call(s,k,target,ind,ty):
        """call with &mut params or complex args"""
        p,gargs=s.callee(k); s.cur_gargs=gargs
        if p is None: raise Unsupported('indirect call')
        if p.startswith('core[') and '::panicking::' in p:
            s.emit(ind,'throw Rs.Trap.panic'); return
        argn=kid(k,'args:').kids
        if p.endswith('::iterator::Iterator::next'):
            pl=s.place(argn[0]); r0=s.fresh('it')
            s.emit(ind,f'let {r0} := Rs.iter_next {s.place_read(pl)}')
            s.store(pl,f'{r0}.2',ind)
            if target: s.emit(ind,f'{target} := {r0}.1')
            return
        if p.endswith('::mem::swap'):
            a=s.place(argn[0]); b=s.place(argn[1]); t0=s.fresh('sw')
            s.emit(ind,f'let {t0} := {s.place_read(a)}'); s.store(a,s.place_read(b),ind); s.store(b,t0,ind); return
        args=[s.operand(x,ind) for x in argn]
        argtys=[prim(s.unwrap(x)[0]) for x in argn]
        if p.startswith(('core[','std[','num_traits[')):
            s.cur_argtys=[tykey(s.unwrap(x)[0]) for x in argn]
            s.cur_rawargtys=[raw_ty(s.unwrap(x)[0]) for x in argn]; s.cur_rawret=raw_ty(ty)
            r=s.resolve_trait(p,tykey(ty))
            if r is not None and s.sigs[r].mutrefs:
                s.calls.add(r); sig=s.sigs[r]
                rr=s.fresh('r'); n=1+len(sig.mutrefs)
                s.emit(ind,f'let {rr} ← {mangle(r)}'+''.join(' '+a for a in s.impl_generics(r,gargs)+args))
                for j,i in enumerate(sig.mutrefs): s.store(s.place(argn[i]),proj(rr,j+1,n),ind)
                if target and prim(ty)!='()': s.emit(ind,f'{target} := {proj(rr,0,n)}')
                return
            c=s.core_call(p,gargs,args,argtys,prim(ty))
            if target: s.emit(ind,f'{target} := {c}')
            else: s.emit(ind,f'let _ := {c}')
            return
        s.calls.add(p); sig=s.sigs.get(p)
        g=generic_consts(gargs)
        call=mangle(p)+''.join(' '+a for a in g+args)
        if sig is None: raise Unsupported('no sig '+p[-30:])
        if not sig.mutrefs:
            if target: s.emit(ind,f'{target} := (← {call})')
            else: s.emit(ind,f'let _ ← {call}')
            return
        r=s.fresh('r'); n=1+len(sig.mutrefs)
        s.emit(ind,f'let {r} ← {call}')
        for j,i in enumerate(sig.mutrefs):
            pl=s.place(argn[i])
            s.store(pl,proj(r,j+1,n),ind)
        if target and prim(ty)!='()': s.emit(ind,f'{target} := {proj(r,0,n)}')
    def assign_to(s,e,target,ind):
        ty,k=s.unwrap(e); h=k.text
        if h.startswith('NeverToAny'): return s.stmt(s.sub(k,'source:'),ind)
        if h.startswith(('Loop','Assign','AssignOp','Return','Break')): return s.stmt(e,ind)
        if s.is_simple(e) and not h.startswith(('If','Match')):
            if prim(ty)=='()' or norm_ty(ty)=='!': return s.stmt(e,ind)
            if target is None: s.emit(ind,f'let _ := {s.term(e)}')
            else: s.emit(ind,f'{target} := {s.term(e)}')
            return
        if h.startswith('Block'):
            for st in kid(k,'stmts:').kids: s.stmtnode(st,ind)
            ex=kid(k,'expr:')
            if ex.kids: s.assign_to(ex.kids[0],target,ind)
            return
        if h.startswith('If') and s.unwrap(s.sub(k,'cond:'))[1].text.startswith('Let'):
            lk=s.unwrap(s.sub(k,'cond:'))[1]
            pe=s.sub(lk,'expr:'); pat=kid(lk,'pat:').text
            vi=int(re.search(r'variant_index: (\d+)',pat).group(1))
            m=re.search(r'Binding \{ name: "(\w+)".*?\)\.(\d+)\)\), ty: ([^,]+),',pat)
            if not m or vi!=1: raise Unsupported('if-let pattern')
            name,vid,vty=m.group(1),m.group(2),m.group(3)
            ln=f'{name}_{vid}'; s.vars[vid]=ln; s.vartys[ln]=lean_ty(vty)
            s.emit(ind,f'match {s.operand(pe,ind)} with')
            s.emit(ind,f'| some {ln} =>')
            n0=len(s.lines); s.assign_to(s.sub(k,'then:'),target,ind+1)
            if len(s.lines)==n0: s.emit(ind+1,'pure ()')
            s.emit(ind,'| none =>')
            n0=len(s.lines); el=kid(k,'else:')
            if el is not None: s.assign_to(el.kids[0],target,ind+1)
            if len(s.lines)==n0: s.emit(ind+1,'pure ()')
            return
        if h.startswith('If'):
            cv=s.cond(s.sub(k,'cond:'),ind)
            s.emit(ind,f'if {cv} then')
            n0=len(s.lines); s.assign_to(s.sub(k,'then:'),target,ind+1)
            if len(s.lines)==n0: s.emit(ind+1,'pure ()')
            el=kid(k,'else:')
            if el is not None:
                s.emit(ind,'else')
                n0=len(s.lines); s.assign_to(el.kids[0],target,ind+1)
                if len(s.lines)==n0: s.emit(ind+1,'pure ()')
            return
        if h.startswith(('Use','ValueTypeAscription')): return s.assign_to(s.sub(k,'source:'),target,ind)
        if h.startswith('LogicalOp'):
            v=s.cond(e,ind)
            s.emit(ind,(f'{target} := ' if target else 'let _ := ')+v); return
        if h.startswith('Match'): return s.match(k,target,ind)
        if h.startswith('Call'): return s.do_call(k,target,ind,ty)
        # n-ary strict nodes with complex operands: hoist all operands in order (ANF)
        if h.startswith('Binary'):
            op=kid(k,'op:').text[4:]; L=s.sub(k,'lhs:'); R=s.sub(k,'rhs:')
            a=s.hoist(L,ind); b=s.hoist(R,ind)
            fake=s.binary_code(op,prim(s.unwrap(L)[0]),prim(s.unwrap(R)[0]),a,b)
            s.emit(ind,(f'{target} := ' if target else 'let _ := ')+fake); return
        if h.startswith('Cast'):
            src=s.sub(k,'source:'); st=prim(s.unwrap(src)[0]); a=s.hoist(src,ind); t=prim(ty)
            s.emit(ind,(f'{target} := ' if target else 'let _ := ')+(a if st==t else f'(Rs.cast_{st}_{t} {a})')); return
        if h.startswith('Tuple'):
            fs=[s.hoist(x,ind) for x in kid(k,'fields:').kids]
            s.emit(ind,(f'{target} := ' if target else 'let _ := ')+'('+', '.join(fs)+')'); return
        if h.startswith('Unary') or h.startswith('Field') or h.startswith('Deref') or h.startswith('Borrow') or h.startswith('Adt') or h.startswith('Index') or h.startswith('Array'):
            raise Unsupported('complex operand in '+h[:12])
        raise Unsupported('assign_to '+h[:40])
    def hoist(s,e,ind):
        ty,_=s.unwrap(e)
        t=s.fresh('h'); s.emit(ind,f'let mut {t} : {lean_ty(ty)} := default'); s.assign_to(e,t,ind); return t
    def binary_code(s,op,lt,rt,a,b):
        if lt in ('f64','f32'): return f'(Rs.{op.lower()}_{lt} {a} {b})'
        if op in ('Eq','Ne'): return f'({a} {"==" if op=="Eq" else "!="} {b})'
        if op in ('Lt','Le','Gt','Ge'):
            return f'(decide ({a} {dict(Lt="<",Le="<=",Gt=">",Ge=">=")[op]} {b}))'
        if op in ('BitAnd','BitOr','BitXor'):
            if lt=='bool': return f'({a} {"&&" if op=="BitAnd" else "||" if op=="BitOr" else "!="} {b})'
            return f'({a} {"&&&" if op=="BitAnd" else "|||" if op=="BitOr" else "^^^"} {b})'
        if op in ('Shl','Shr'): return f'(← Rs.{op.lower()}_{lt} {a} (Rs.toInt_{rt} {b}))'
        return f'(← Rs.{op.lower()}_{lt} {a} {b})'
    def cond(s,c,ind):
        ty,k=s.unwrap(c)
        if s.is_simple(c) and not k.text.startswith(('If','Match')): return s.term(c)
        if k.text.startswith('LogicalOp'):
            op=kid(k,'op:').text[4:]; t=s.fresh('c')
            s.emit(ind,f'let mut {t} : Bool := {s.cond(s.sub(k,"lhs:"),ind)}')
            s.emit(ind,f'if {"!" if op=="Or" else ""}{t} then')
            rv=s.cond(s.sub(k,'rhs:'),ind+1)
            s.emit(ind+1,f'{t} := {rv}')
            return t
        t=s.fresh('c'); s.emit(ind,f'let mut {t} : Bool := default'); s.assign_to(c,t,ind); return t
    def match(s,k,target,ind):
        scr=s.sub(k,'scrutinee:'); sv=s.operand(scr,ind); sty=prim(s.unwrap(scr)[0])
        if not re.match(r'^\w+$',sv):
            t0=s.fresh('m'); s.emit(ind,f'let {t0} := {sv}'); sv=t0
        arms=kid(k,'arms:').kids; plan=[]
        for arm in arms:
            optbind=[]
            pat=kid(arm,'pattern:').kids[0]; body=kid(arm,'body:').kids[0]
            g=kid(arm,'guard:')
            pkk=kid(pat,'kind:')
            pk=pkk.kids[0] if pkk.kids else Node(pkk.text[6:].strip(),0)
            test=None
            if pk.text.startswith('PatKind'): pk=pk.kids[0] if pk.kids else Node(pk.text,0)
            if pk.text.startswith('Variant'):
                vi=int(find_first(pk,'variant_index:').text.split()[1])
                if sty.startswith('core::option::Option'):
                    if vi==0: test=f'{sv}.isNone'
                    else:
                        test=f'{sv}.isSome'
                        mm=re.search(r'name: "(\w+)"',' '.join(x.text for x in _all(pk)))
                        bnode=_find_binding(pk)
                        if bnode is not None:
                            ln,vty=s.bindvar(bnode); optbind.append((ln,f'{sv}.get!'))
                else: test=f'{sv} == {vi}'
            elif 'Wild' in pk.text: test=None
            elif pk.text.startswith('Constant'):
                v=find_first(pk,'value:')
                m=re.search(r'(-?\d+)_\w+|Leaf\((0x[0-9a-f]+)\)',v.text) if v else None
                if not m: raise Unsupported('const pattern '+(v.text[:40] if v else ''))
                val=int(m.group(1)) if m.group(1) else int(m.group(2),16)
                test=f'{sv} == ({val} : {LEANTY.get(sty,sty)})'
            elif pk.text.startswith('Binding'):
                ln,vty=s.bindvar(pk); s.emit(ind,f'let mut {ln} := {sv}'); test=None
            else: raise Unsupported('pattern '+pk.text[:40])
            if g is not None and g.kids:
                if not s.is_pure(g.kids[0]): raise Unsupported('impure guard')
                gc=s.term(g.kids[0])
                test=gc if test is None else f'({test}) && {gc}'
            plan.append((test,body,optbind))
        first=True
        for test,body,optbind in plan:
            if test is None: s.emit(ind,'else' if not first else 'if true then')
            else: s.emit(ind,('if ' if first else 'else if ')+test+' then')
            n0=len(s.lines)
            for ln,v in optbind: s.emit(ind+1,f'let mut {ln} := {v}')
            s.assign_to(body,target,ind+1)
            if len(s.lines)==n0: s.emit(ind+1,'pure ()')
            first=False
            if test is None: break
    # places -----------------------------------------------------------------
    def place(s,e):
        """return list path: ('var',name) [+ ('field',i,kind) | ('index',term)]"""
        ty,k=s.unwrap(e); h=k.text
        if h.startswith('VarRef'): return [('var',s.var(kid(k,'id:').text))]
        if h.startswith('Deref'): return s.place(k.kids[0])
        if h.startswith('Borrow'): return s.place(s.sub(k,'arg:'))
        if h.startswith(('Use','Pointer')): return s.place(s.sub(k,'source:'))
        if h.startswith('Field'):
            lhs=s.sub(k,'lhs:'); nt=norm_ty(s.unwrap(lhs)[0]); idx=int(kid(k,'name:').text.split()[1])
            base=s.place(lhs)
            if nt in NEWTYPES or nt.startswith('i32#px'): return base
            if nt=='quire32::Q32E2': return base+[('sfield',idx)]
            if nt.startswith('('): return base+[('tfield',idx,tuple_arity(nt))]
        if h.startswith('Index'):
            return s.place(s.sub(k,'lhs:'))+[('index',s.term(s.sub(k,'index:')))]
        raise Unsupported('place '+h[:40])
    def place_read(s,pl):
        t=pl[0][1]
        for p in pl[1:]:
            if p[0]=='sfield': t=f'({t}).f{p[1]}'
            elif p[0]=='tfield': t='('+proj(t,p[1],p[2])+')'
            elif p[0]=='index': t=f'(← Rs.index {t} {p[1]})'
        return t
    def store(s,pl,val,ind):
        if len(pl)==1: s.emit(ind,f'{pl[0][1]} := {val}'); return
        if len(pl)==2:
            b=pl[0][1]; p=pl[1]
            if p[0]=='sfield': s.emit(ind,f'{b} := {{ {b} with f{p[1]} := {val} }}'); return
            if p[0]=='index': s.emit(ind,f'{b} := (← Rs.setIndex {b} {p[1]} {val})'); return
        raise Unsupported('nested place store')
    def stmt(s,e,ind):
        ty,k=s.unwrap(e); h=k.text
        if h.startswith('NeverToAny'): return s.stmt(s.sub(k,'source:'),ind)
        if h.startswith('Assign {'):
            pl=s.place(s.sub(k,'lhs:'))
            if len(pl)==1: s.assign_to(s.sub(k,'rhs:'),pl[0][1],ind)
            else: s.store(pl,s.operand(s.sub(k,'rhs:'),ind),ind)
            return
        if h.startswith('AssignOp'):
            op=kid(k,'op:').text[4:].replace('Assign',''); L=s.sub(k,'lhs:'); R=s.sub(k,'rhs:')
            lt=prim(s.unwrap(L)[0]); rt=prim(s.unwrap(R)[0]); pl=s.place(L); b=s.operand(R,ind)
            cur=s.place_read(pl)
            s.store(pl,s.binary_code(op,lt,rt,cur,b),ind); return
        if h.startswith('Return'):
            v=kid(k,'value:')
            if v and v.kids:
                rv=s.operand(v.kids[0],ind)
            else: rv='()'
            rv=s.retval(rv)
            if s.loopctx: s.emit(ind,f'return (.ret {rv})')
            else: s.emit(ind,f'return {rv}')
            return
        if h.startswith('Break'):
            s.emit(ind,f'return (.brk {s.loopctx[-1]})'); return
        if h.startswith('Continue'):
            s.emit(ind,f'return (.cont {s.loopctx[-1]})'); return
        if h.startswith('Block'):
            for st in kid(k,'stmts:').kids: s.stmtnode(st,ind)
            ex=kid(k,'expr:')
            if ex.kids: s.assign_to(ex.kids[0],None,ind)
            return
        if h.startswith(('If','Match')): return s.assign_to(e,None,ind)
        if h.startswith('Loop'): return s.loop(k,ind)
        if h.startswith('Call'): return s.do_call(k,None,ind,ty)
        if h.startswith('Tuple') and not kid(k,'fields:').kids: return
        if h.startswith(('Use','ValueTypeAscription')): return s.stmt(s.sub(k,'source:'),ind)
        if s.is_simple(e): s.emit(ind,f'let _ := {s.term(e)}'); return
        raise Unsupported('stmt '+h[:40])
    def stmtnode(s,st,ind):
        kk=kid(st,'kind:')
        if kk.text.startswith('kind: Let'):
            pat=kid(kk,'pattern:').kids[0]; init=kid(kk,'initializer:')
            if kid(kk,'else_block:') and 'None' not in kid(kk,'else_block:').text: raise Unsupported('let-else')
            pkk=kid(pat,'kind:'); pk=pkk.kids[0] if pkk.kids else Node(pkk.text[6:],0)
            if pk.text.startswith('Binding'):
                ln,vty=s.bindvar(pk)
                if init is None or not init.kids:
                    s.emit(ind,f'let mut {ln} : {lean_ty(vty)} := default'); return
                ie=init.kids[0]; ity,ik=s.unwrap(ie)
                if s.is_simple(ie) and not ik.text.startswith(('If','Match')):
                    s.emit(ind,f'let mut {ln} : {lean_ty(vty)} := {s.term(ie)}')
                else:
                    s.emit(ind,f'let mut {ln} : {lean_ty(vty)} := default'); s.assign_to(ie,ln,ind)
                return
            if pk.text.startswith('Leaf'):
                subs=kid(pk,'subpatterns:').kids; names=[]
                for sp in subs:
                    bk=kid(sp,'kind:'); b=bk.kids[0] if bk.kids else Node(bk.text[6:],0)
                    if b.text.startswith('Binding'): names.append(s.bindvar(b))
                    elif 'Wild' in b.text: names.append(('_',None))
                    else: raise Unsupported('nested pattern')
                ie=init.kids[0]; ity,_=s.unwrap(ie)
                tmp=s.operand(ie,ind)
                if not re.match(r'^\w+$',tmp):
                    t2=s.fresh('p'); s.emit(ind,f'let {t2} : {lean_ty(ity)} := {tmp}'); tmp=t2
                n=len(names)
                for i,(ln,vty) in enumerate(names):
                    if ln=='_': continue
                    s.emit(ind,f'let mut {ln} : {lean_ty(vty)} := {proj(tmp,i,n)}')
                return
            if 'Wild' in pk.text:
                if init and init.kids: s.assign_to(init.kids[0],None,ind)
                return
            raise Unsupported('let pattern '+pk.text[:30])
        if kk.text.startswith('kind: Expr'):
            return s.stmt(kid(kk,'expr:').kids[0],ind)
        raise Unsupported('stmt kind '+kk.text[:30])
    # loops ------------------------------------------------------------------
    def assigned_vars(s,n,acc):
        if n.text.startswith(('Assign {','AssignOp')):
            try: acc.add(s.place(kid(n,'lhs:').kids[0])[0][1])
            except Exception: pass
        if n.text.startswith('Call {'):
            p,_=s.callee(n)
            for a in kid(n,'args:').kids:
                try:
                    aty,ak=s.unwrap(a)
                    if (ak.text.startswith('Borrow') and 'Mut' in kid(ak,'borrow_kind:').text) or is_mutref(aty):
                        acc.add(s.place(a)[0][1])
                except Exception: pass
            if p in s.sigs and s.sigs[p].mutrefs:
                argn=kid(n,'args:').kids
                for i in s.sigs[p].mutrefs:
                    try: acc.add(s.place(argn[i])[0][1])
                    except Exception: pass
        for k in n.kids: s.assigned_vars(k,acc)
    def used_vars(s,n,acc):
        if n.text.startswith('id: LocalVarId'):
            v=s.vid(n.text)
            if v in s.vars: acc.add(s.vars[v])
        for k in n.kids: s.used_vars(k,acc)
    def loop(s,k,ind):
        body=s.sub(k,'body:')
        outer=set(s.vars.values())
        asg=set(); s.assigned_vars(body,asg)
        use=set(); s.used_vars(body,use)
        if s.sig.mutrefs: use|={s.paramnames[i] for i in s.sig.mutrefs}
        state=sorted(v for v in asg if v in outer)
        ro=sorted(v for v in use if v in outer and v not in state)
        idx=len(s.loops)+1; lname=f'{s.name}.loop{idx}'
        tys=s.vartys
        sty='('+' × '.join(tys[v] for v in state)+')' if len(state)>1 else (tys[state[0]] if state else 'Unit')
        stup='('+', '.join(state)+')' if len(state)>1 else (state[0] if state else '()')
        saved=s.lines; s.lines=[]
        s.loopctx.append(stup); s.stmt(body,2); s.loopctx.pop()
        blines=s.lines; s.lines=saved
        gp=''.join(f'({g} : UInt32) ' for g in s.gen)
        ga=''.join(f'{g} ' for g in s.gen)
        params=gp+' '.join(f'({v} : {tys[v]})' for v in ro+state)
        rt=s.rettype()
        L=[f'def {lname}.body {params} : Rs.M (Rs.Ctl {sty} {rt}) := do']
        for v in state: L.append(f'    let mut {v} := {v}')
        L+=blines
        L.append(f'    return (.cont {stup})')
        L.append(f'def {lname} (fuel : Nat) {params} : Rs.M (Rs.LoopRes {sty} {rt}) :=')
        L.append(f'  match fuel with')
        L.append(f'  | 0 => throw Rs.Trap.fuel')
        L.append(f'  | fuel+1 => do')
        L.append(f'    match ← {lname}.body {ga}{" ".join(ro+state)} with')
        L.append(f'    | .cont {stup} => {lname} fuel {ga}{" ".join(ro+state)}')
        L.append(f'    | .brk {stup} => pure (.done {stup})')
        L.append(f'    | .ret v => pure (.ret v)')
        s.loops.append('\n'.join(L))
        pv=[v+'_n' for v in state]
        ptup='('+', '.join(pv)+')' if len(pv)>1 else (pv[0] if pv else '()')
        s.emit(ind,f'match ← {lname} 1200 {ga}{" ".join(ro+state)} with')
        s.emit(ind,f'| .done {ptup} =>')
        for v,p in zip(state,pv): s.emit(ind+1,f'{v} := {p}')
        if not state: s.emit(ind+1,'pure ()')
        s.emit(ind,'| .ret v => return (.ret v)' if s.loopctx else '| .ret v => return v')
    def rettype(s):
        r=lean_ty(s.sig.ret)
        if s.sig.mutrefs:
            r='('+' × '.join([r]+[lean_ty(s.sig.params[i]) for i in s.sig.mutrefs])+')'
        return r
    def translate(s):
        params=kid(s.body,'params:'); body=kid(s.body,'body:').kids[0]
        ps=[]; s.paramnames=[]
        for p in params.kids:
            if s.is_sample and ('R/#' in kid(p,'ty:').text or 'distributions::Standard' in kid(p,'ty:').text):
                b=_find_binding(p)
                if b is not None:
                    nm_=kid(b,'name:').text.split('"')[1]; s.vars[s.vid(kid(b,'var:').text)]=nm_+'_unused'
                continue
            pat=kid(p,'param:')
            if pat is None or not pat.kids: raise Unsupported('param')
            bk=kid(pat.kids[0],'kind:'); b=bk.kids[0] if bk.kids else Node(bk.text[6:],0)
            if b.text.startswith('PatKind'): b=b.kids[0]
            if not b.text.startswith('Binding'): raise Unsupported('param pattern')
            ln,vty=s.bindvar(b); ps.append((ln,lean_ty(vty))); s.paramnames.append(ln)
        def scan(n):
            if n.text.startswith('Binding {') and kid(n,'name:') is not None:
                name=kid(n,'name:').text.split('"')[1]; vid=s.vid(kid(n,'var:').text)
                try: s.vartys[f'{name}_{vid}']=lean_ty(kid(n,'ty:').text[4:])
                except Unsupported: pass
            for k in n.kids: scan(k)
        scan(s.body)
        s.lines=[]
        for ln,t in ps: s.emit(1,f'let mut {ln} := {ln}')
        ty,k=s.unwrap(body)
        if prim(ty)=='()':
            s.stmt(body,1); s.emit(1,'return '+s.retval('()'))
        elif s.is_simple(body) and not k.text.startswith(('If','Match')):
            s.emit(1,f'return {s.retval(s.term(body))}')
        elif norm_ty(ty)=='!':
            s.stmt(body,1)
        else:
            s.emit(1,f'let mut ret_ : {lean_ty(ty)} := default')
            s.assign_to(body,'ret_',1)
            s.emit(1,'return '+s.retval('ret_'))
        gp=''.join(f'({g} : UInt32) ' for g in s.gen)
        if s.sig.is_const:
            hdr=f'def {s.name} {gp}: {lean_ty(s.sig.ret)} := Rs.constVal do'
        else:
            ps=ps+list(s.rng_params)
            hdr=f'def {s.name} {gp}'+' '.join(f'({ln} : {t})' for ln,t in ps)+f' : Rs.M {s.rettype()} := do'
        return '\n'.join(s.loops+[hdr]+s.lines)

def stable_names(bodies,sigs,impls):
    """path -> Lean name that does not depend on rustc's {impl#k} numbering: the impl segment becomes
    <Self>[.<Trait>]; when several impls share (module, Self, Trait) — generic traits such as From<T>,
    AddAssign<T>, Quire<P> — the trait segment gets a tag made of the types that occur only in that impl."""
    def san(x): return re.sub(r'_+','_',re.sub(r'[^A-Za-z0-9_]','_',x)).strip('_')
    def enc(t):
        t=re.sub(r'softposit\[\w+\]::|\w+::','',re.sub(r"&'?\{?\w*\}?\s*(mut\s+)?",'ref ',t)).replace(' ','')
        t=re.sub(r'<[^<>]*>','',t)
        t=t.replace('(','L').replace(')','R').replace('[','A').replace(']','').replace(';','x').replace('_usize','')
        return san(t)
    def owner_of(p):
        m=re.match(r'(.*\{impl#\d+\})',p)
        return m.group(1) if m else None
    # types used by each impl
    otypes=collections.defaultdict(set); okey={}
    for p in bodies:
        o=owner_of(p)
        if o is None: continue
        sg=sigs.get(p)
        if sg:
            for t in list(sg.params)+[sg.ret]: otypes[o].add(enc(t))
        tr,slf=impls.get(o,[None,None])
        okey[o]=(re.sub(r'\{impl#\d+\}$','',o),slf,tr)
    groups=collections.defaultdict(list)
    for o,k in okey.items(): groups[k].append(o)
    otag={}
    for k,os_ in groups.items():
        if len(os_)<2 or k[2] in (None,'<inherent>'): continue
        for o in os_:
            others=set().union(*[otypes[x] for x in os_ if x!=o])
            uniq=sorted(t for t in otypes[o]-others if t)
            otag[o]=min(uniq,key=lambda t:(len(t),t)) if uniq else ''
    OTAG.update(otag)
    prelim={}
    for p in bodies:
        q=re.sub(r'^softposit\[\w+\]::','',p)
        segs=q.split('::'); out=[]; pref='softposit[0000]'
        for sg in segs:
            pref=pref+'::'+sg
            m=re.match(r'\{impl#(\d+)\}$',sg)
            if m:
                tr,slf=impls.get(pref,[None,None])
                slf=slf or 'Self'
                if tr in (None,'<inherent>'): out.append(slf)
                else:
                    out.append(slf); t=re.sub(r'\[\w+\]','',tr).split('::')[-1]
                    if otag.get(pref): t=t+'_'+otag[pref]
                    out.append(t)
            else:
                sg=sg.replace('{closure#','closure').replace('{constant#','constant').replace('{','').replace('}','')
                out.append(san(sg))
        prelim[p]='crate.'+'.'.join(out)
    groups=collections.defaultdict(list)
    for p,n in prelim.items(): groups[n].append(p)
    names={}
    for n,ps in groups.items():
        if len(ps)==1: names[ps[0]]=n; continue
        def ikey(p):
            m=re.search(r'\{impl#(\d+)\}',p); return (int(m.group(1)) if m else -1,p)
        for i,p in enumerate(sorted(ps,key=ikey)): names[p]=n+('.v%d'%(i+1))
    return names

def load(thir_path,hir_path):
    import impltable
    bodies={}
    for b in parse_bodies(thir_path): bodies[defpath(b.text)]=b
    sigs={}
    for p,b in bodies.items():
        try: sigs[p]=Sig(p,b)
        except Exception: pass
    def isconst(a): return bool(re.match(r'^(N|M|BITS)/#\d+$|^\{?\s*\d+_u32\s*\}?$',a.strip()))
    def scan(n,last=[None]):
        t=n.text
        m=re.search(r'FnDef\(DefId\(\d+:\d+ ~ ([^)]*)\), \[(.*)\]\)\s*$',t)
        if m:
            GENARITY[m.group(1)]=max(GENARITY.get(m.group(1),0),sum(isconst(a) for a in split_top(m.group(2))))
        if t.startswith('NamedConst'):
            d=kid(n,'def_id:'); a=kid(n,'args:')
            if d is not None and a is not None:
                pth=defpath(d.text); args=re.sub(r'^args: \[|\]$','',a.text)
                GENARITY[pth]=max(GENARITY.get(pth,0),sum(isconst(x) for x in split_top(args)))
        for k in n.kids:
            if not k.text.startswith(NOISE): scan(k)
    for b in bodies.values(): scan(b)
    def alltext(n,acc):
        if not n.text.startswith(NOISE): acc.append(n.text)
        for k in n.kids: alltext(k,acc)
    for pth,b in bodies.items():
        acc=[]; alltext(b,acc); t='\n'.join(acc)
        names=set(re.findall(r'\b([A-Za-z_]\w*)/#\d+',t))-{'N','M','BITS'}
        if names: TYGENERIC.add(pth)
    impls=impltable.build(hir_path)
    global TRAITIDX
    TRAITIDX=collections.defaultdict(list)   # (trait path sans crate hash, method) -> [fn path]
    for fp in bodies:
        m=re.match(r'(.*\{impl#\d+\})::(\w+)$',fp)
        if m and impls.get(m.group(1)) and impls[m.group(1)][0] not in (None,'<inherent>'):
            tr=re.sub(r'\[\w+\]','',impls[m.group(1)][0])
            TRAITIDX[(tr,m.group(2))].append(fp)
            SELFOF[fp]=impls[m.group(1)][1]
    NAMES.update(stable_names(bodies,sigs,impls))
    return bodies,sigs

