import re,json,sys
HASH=re.compile(r'\b(\w+)\[[0-9a-f]{4}\]::')
def build(path):
    owner=None; table={}; selfs={}; want_trait=False; in_impl=False; saw_of_trait=False; in_self=False
    with open(path) as f:
        prev=''
        for line in f:
            line=HASH.sub(r'\1[0000]::',line)
            if line.startswith('DefId('):
                m=re.match(r'DefId\(\d+:\d+ ~ ([^)]*)\) => OwnerNodes',line)
                owner=m.group(1) if m else None; in_impl=False; saw_of_trait=False; want_trait=False; in_self=False
                prev=line; continue
            if owner is None: continue
            s=line.strip()
            if not in_impl and s.startswith('kind: Impl('): in_impl=True; table[owner]=None
            elif in_impl and table.get(owner) is None:
                if s.startswith('of_trait: Some('): saw_of_trait=True
                elif s.startswith('of_trait: None'): table[owner]='<inherent>'
                elif saw_of_trait and prev.strip()=='Trait,' and s.startswith('DefId('):
                    table[owner]=re.search(r'~ ([^)]*)\)',s).group(1)
            if in_impl and owner not in selfs:
                if s.startswith('self_ty: Ty'): in_self=True
                elif in_self and s.startswith('ident:'):
                    nm=re.match(r'ident: (\w+)#',s).group(1)
                    if nm not in ('super','crate','self'): selfs[owner]=nm
            prev=line
    return {k:[v,selfs.get(k)] for k,v in table.items()}
