"""One table of public operations, from which both sides of the correspondence are generated:
   * harness/src/ops_gen.rs  — calls the REAL crate,
   * lean/DriverOps.lean     — calls the generated model `Gen` and the specification `Spec`.
Line protocol: `<ty> <op> <hex a> [<hex b> [<hex c>]]`  ->  `... => <hex result>|PANIC`.
Arguments are raw u64; kinds say how they are interpreted."""

TYPES = {
    'p8':  dict(T='P8E0',  mod='p8e0',  i='i8',  u='u8',  fmt='Spec.p8',  n=8,  q='Q8E0',  qmod='quire8'),
    'p16': dict(T='P16E1', mod='p16e1', i='i16', u='u16', fmt='Spec.p16', n=16, q='Q16E1', qmod='quire16'),
    'p32': dict(T='P32E2', mod='p32e2', i='i32', u='u32', fmt='Spec.p32', n=32, q='Q32E2', qmod='quire32'),
}
INTS = {'i8': 8, 'i16': 16, 'i32': 32, 'i64': 64, 'isize': 64, 'u8': 8, 'u16': 16, 'u32': 32, 'u64': 64, 'usize': 64}

def rust_in(kind, v, ty):
    if kind == 'X': return f'{PX[ty]["T"]}::<N>::from_bits({v} as u32)'
    t = TYPES.get(kind, TYPES.get(ty))
    if kind == 'P' or kind in TYPES: return f'{t["T"]}::from_bits({v} as {t["u"]})'
    if kind == 'f64': return f'f64::from_bits({v})'
    if kind == 'f32': return f'f32::from_bits({v} as u32)'
    if kind == 'bool': return f'({v} != 0)'
    return f'({v} as {kind})'
def rust_out(kind, e, ty):
    if kind == 'X': return f'({e}).to_bits() as u64'
    t = TYPES.get(kind, TYPES.get(ty))
    if kind == 'P' or kind in TYPES: return f'({e}).to_bits() as u64'
    if kind == 'f64': return f'({e}).to_bits()'
    if kind == 'f32': return f'({e}).to_bits() as u64'
    if kind == 'bool': return f'({e}) as u64'
    if kind == 'ord': return f'((({e}) as i8) + 1) as u64'
    if kind == 'optord': return f'match {e} {{ Some(o) => ((o as i8) + 1) as u64, None => 3 }}'
    if kind == 'cat': return f'match {e} {{ core::num::FpCategory::Nan => 0, core::num::FpCategory::Infinite => 1, core::num::FpCategory::Zero => 2, core::num::FpCategory::Subnormal => 3, core::num::FpCategory::Normal => 4 }}'
    if kind == 'optP': return f'match {e} {{ Some(p) => p.to_bits() as u64, None => 0xffff_ffff_ffff }}'
    if kind.startswith('opt'):   # Option<int>
        k = kind[3:]; w = INTS[k]
        uk = ('u' + k[1:]) if k[0] == 'i' else k
        return f'match {e} {{ Some(v) => (v as {uk}) as u64, None => 0xdead_0000_0000_0000 }}'
    w = INTS[kind]
    uk = ('u' + kind[1:]) if kind[0] == 'i' else kind
    return f'(({e}) as {uk}) as u64'
def lean_in(kind, v, ty):
    if kind == 'X': return f'(Rs.cast_u64_i32 {v})'
    t = TYPES.get(kind, TYPES.get(ty))
    if kind == 'P' or kind in TYPES: return f'(Rs.cast_u64_{t["i"]} {v})'
    if kind == 'f64': return f'(Rs.F64.mk {v})'
    if kind == 'f32': return f'(Rs.F32.mk (Rs.cast_u64_u32 {v}))'
    if kind == 'bool': return f'({v} != 0)'
    return f'(Rs.cast_u64_{kind} {v})'
def lean_out(kind, ty):
    """Lean function: result value -> UInt64"""
    if kind == 'X': return '(fun r => Rs.cast_u32_u64 (Rs.cast_i32_u32 r))'
    t = TYPES.get(kind, TYPES.get(ty))
    if kind == 'P' or kind in TYPES: return f'(fun r => Rs.cast_{t["u"]}_u64 (Rs.cast_{t["i"]}_{t["u"]} r))'
    if kind == 'f64': return '(fun r => r.bits)'
    if kind == 'f32': return '(fun r => Rs.cast_u32_u64 r.bits)'
    if kind == 'bool': return '(fun r => if r then 1 else 0)'
    if kind == 'ord': return '(fun r => UInt64.ofNat r)'
    if kind == 'optord': return '(fun r => match r with | some o => UInt64.ofNat o | none => 3)'
    if kind == 'cat': return '(fun r => UInt64.ofNat r)'
    if kind == 'optP': return f'(fun r => match r with | some p => Rs.cast_{t["u"]}_u64 (Rs.cast_{t["i"]}_{t["u"]} p) | none => 0xffffffffffff)'
    if kind.startswith('opt'):
        k = kind[3:]; uk = ('u' + k[1:]) if k[0] == 'i' else k
        return f'(fun r => match r with | some v => Rs.cast_{uk}_u64 (Rs.cast_{k}_{uk} v) | none => 0xdead000000000000)'
    uk = ('u' + kind[1:]) if kind[0] == 'i' else kind
    if uk == kind: return f'(fun r => Rs.cast_{kind}_u64 r)'
    return f'(fun r => Rs.cast_{uk}_u64 (Rs.cast_{kind}_{uk} r))'

def ops_for(ty):
    t = TYPES[ty]; T = t['T']; m = t['mod']; F = t['fmt']; n = t['n']
    R = []   # (op, arg kinds, ret kind, rust expr, lean call, spec (Option Nat expr or None), property)
    def add(op, args, ret, rust, lean, spec=None, prop=''):
        R.append((op, args, ret, rust, lean, spec, prop))
    # ---- C01 arithmetic: operator-trait and const-method spellings
    for o, sym in (('add', '+'), ('sub', '-'), ('mul', '*'), ('div', '/')):
        tr = o.capitalize()
        add(o, 'PP', 'P', f'x {sym} y', f'crate.{m}.ops.{T}.{tr}.{o} x y', f'some (Spec.{o} {F} a b)', 'C01')
        add(o + '_m', 'PP', 'P', f'x.{o}(y)', f'crate.{m}.ops.{T}.{o} x y', f'some (Spec.{o} {F} a b)', 'C01')
        add(o + '_assign', 'PP', 'P', f'{{ let mut w = x; w {sym}= y; w }}', f'(do let r ← crate.{m}.ops.{T}.{tr}Assign.{o}_assign x y; pure r.2)', f'some (Spec.{o} {F} a b)', 'C17')
    add('neg', 'P', 'P', '-x', f'crate.{m}.ops.{T}.Neg.neg x', f'some (Spec.neg {F} a)', 'C10')
    add('neg_m', 'P', 'P', 'x.neg()', f'crate.{m}.ops.{T}.neg x', f'some (Spec.neg {F} a)', 'C10')
    add('rem', 'PP', 'P', 'x % y', f'crate.{m}.ops.{T}.Rem.rem x y', None, 'C17')
    add('rem_m', 'PP', 'P', 'x.rem(y)', f'crate.{m}.ops.{T}.rem x y', None, 'C17')
    # ---- C05
    add('mul_add', 'PPP', 'P', 'x.mul_add(y, z)', f'crate.{m}.math.mul_add.{T}.mul_add x y z', f'some (Spec.fma {F} 0 a b c)', 'C05')
    add('mul_sub', 'PPP', 'P', 'x.mul_sub(y, z)', f'crate.{m}.math.mul_add.{T}.mul_sub x y z', f'some (Spec.fma {F} 1 a b c)', 'C05')
    add('sub_product', 'PPP', 'P', 'z.sub_product(x, y)', f'crate.{m}.math.mul_add.{T}.sub_product z x y', f'some (Spec.fma {F} 2 a b c)', 'C05')
    # ---- C06, C09
    add('sqrt', 'P', 'P', 'x.sqrt()', f'crate.{m}.math.sqrt.{T}.sqrt x', f'some (Spec.sqrt {F} a)', 'C06')
    for i, o in enumerate(('round', 'floor', 'ceil')):
        add(o, 'P', 'P', f'x.{o}()', f'crate.{m}.math.{o}.{T}.{o} x', f'some (Spec.roundI {F} {i} a)', 'C09')
    add('trunc', 'P', 'P', 'x.trunc()', f'crate.{m}.math.{T}.trunc x', f'some (Spec.roundI {F} 3 a)', 'C09')
    add('fract', 'P', 'P', 'x.fract()', f'crate.{m}.math.{T}.fract x', f'some (Spec.fract {F} a)', 'C09')
    # ---- C02 / C03 floats
    add('from_f64', ['f64'], 'P', f'{T}::from_f64(x)', f'crate.{m}.convert.{T}.from_f64 x', f'some (Spec.ofF64 {F} a)', 'C02')
    add('from_f32', ['f32'], 'P', f'{T}::from_f32(x)', f'crate.{m}.convert.{T}.from_f32 x', f'some (Spec.ofF32 {F} a)', 'C02')
    add('From_f64', ['f64'], 'P', f'{T}::from(x)', f'crate.{m}.convert.{T}.From_f64.from x', f'some (Spec.ofF64 {F} a)', 'C02')
    add('From_f32', ['f32'], 'P', f'{T}::from(x)', f'crate.{m}.convert.{T}.From_f32.from x', f'some (Spec.ofF32 {F} a)', 'C02')
    add('to_f64', 'P', 'f64', 'x.to_f64()', f'crate.{m}.convert.{T}.to_f64 x', f'some (Spec.toF64 {F} a)', 'C03')
    add('to_f32', 'P', 'f32', 'x.to_f32()', f'crate.{m}.convert.{T}.to_f32 x', f'some (Spec.toF32 {F} a)', 'C03')
    add('f64_From', 'P', 'f64', 'f64::from(x)', f'crate.{m}.convert.f64.From.from x', f'some (Spec.toF64 {F} a)', 'C03')
    add('f32_From', 'P', 'f32', 'f32::from(x)', f'crate.{m}.convert.f32.From.from x', f'some (Spec.toF32 {F} a)', 'C03')
    # C03 round trips: posit -> f64 -> posit, and posit -> Display string -> FromStr (the crate prints / parses through f64; std's
    # shortest-representation Display and correctly rounded parse compose to the identity on f64 — recorded as an assumption)
    rt = f'(fun x => do let d ← crate.{m}.convert.f64.From.from x; crate.{m}.convert.{T}.From_f64.from d) x'
    add('rt_f64', 'P', 'P', f'{T}::from(f64::from(x))', rt, 'some (a)', 'C03')
    add('rt_str', 'P', 'P', f'x.to_string().parse::<{T}>().unwrap()', rt, 'some (a)', 'C03')
    # ---- C07 integers
    for k, w in INTS.items():
        sg = 'true' if k[0] == 'i' else 'false'
        add('from_' + k, [k], 'P', f'{T}::from_{k}(x)', f'crate.{m}.convert.{T}.from_{k} x', f'some (Spec.ofInt {F} {w} {sg} (a % 2^{w}))', 'C07')
        add('From_' + k, [k], 'P', f'{T}::from(x)', f'crate.{m}.convert.{T}.From_{k}.from x', f'some (Spec.ofInt {F} {w} {sg} (a % 2^{w}))', 'C07')
        add('to_' + k, 'P', k, f'x.to_{k}()', f'crate.{m}.convert.{T}.to_{k} x',
            (f'Spec.toInt {F} {w} {sg} a' if k in ('i32', 'u32', 'i64', 'u64') else None), 'C07')
        add(k + '_From', 'P', k, f'{k}::from(x)', f'crate.{m}.convert.{k}.From.from x',
            (f'Spec.toInt {F} {w} {sg} a' if k in ('i32', 'u32', 'i64', 'u64') else None), 'C07')
    # ---- C08 width conversions
    for o in TYPES:
        if o == ty: continue
        t2 = TYPES[o]
        add('to_' + o, 'P', o, f'{t2["T"]}::from(x)', f'crate.convert.{t2["T"]}.From_{T}.from x', f'some (Spec.conv {F} {t2["fmt"]} a)', 'C08')
        add('to_' + o + '_m', 'P', o, f'x.to_{t2["mod"]}()', f'crate.convert.{T}.to_{t2["mod"]} x', f'some (Spec.conv {F} {t2["fmt"]} a)', 'C08')
        add('from_' + o + '_m', [o], 'P', f'{T}::from_{t2["mod"]}(x)', f'crate.convert.{T}.from_{t2["mod"]} x', f'some (Spec.conv {t2["fmt"]} {F} a)', 'C08')
    # ---- C10 order / sign / selection
    b = lambda e: f'some (if {e} then 1 else 0)'
    add('lt', 'PP', 'bool', 'x < y', f'(do let o ← crate.{m}.{T}.PartialOrd.partial_cmp x y; pure (o == some 0))', b(f'Spec.lt {F} a b'), 'C10')
    add('le', 'PP', 'bool', 'x <= y', f'(do let o ← crate.{m}.{T}.PartialOrd.partial_cmp x y; pure (o == some 0 || o == some 1))', b(f'Spec.le {F} a b'), 'C10')
    add('gt', 'PP', 'bool', 'x > y', f'(do let o ← crate.{m}.{T}.PartialOrd.partial_cmp x y; pure (o == some 2))', b(f'Spec.lt {F} b a'), 'C10')
    add('ge', 'PP', 'bool', 'x >= y', f'(do let o ← crate.{m}.{T}.PartialOrd.partial_cmp x y; pure (o == some 2 || o == some 1))', b(f'Spec.le {F} b a'), 'C10')
    add('eq', 'PP', 'bool', 'x == y', f'crate.{m}.{T}.PartialEq.eq x y', b('a == b'), 'C10')
    add('ne', 'PP', 'bool', 'x != y', f'(do let r ← crate.{m}.{T}.PartialEq.eq x y; pure (!r))', b('a != b'), 'C10')
    for o, s in (('lt', f'Spec.lt {F} a b'), ('le', f'Spec.le {F} a b'), ('gt', f'Spec.lt {F} b a'), ('ge', f'Spec.le {F} b a'), ('eq', 'a == b')):
        add(o + '_m', 'PP', 'bool', f'x.{o}(y)', f'crate.{m}.{T}.{o} x y', b(s), 'C10')
    add('cmp', 'PP', 'ord', 'Ord::cmp(&x, &y)', f'crate.{m}.{T}.Ord.cmp x y', f'some (Spec.cmp {F} a b)', 'C10')
    add('cmp_m', 'PP', 'ord', f'{T}::cmp(x, y)', f'crate.{m}.{T}.cmp x y', f'some (Spec.cmp {F} a b)', 'C10')
    add('partial_cmp', 'PP', 'optord', 'PartialOrd::partial_cmp(&x, &y)', f'crate.{m}.{T}.PartialOrd.partial_cmp x y', f'some (Spec.cmp {F} a b)', 'C10')
    add('min', 'PP', 'P', f'{T}::min(x, y)', f'crate.{m}.{T}.min x y', f'some (Spec.pmin {F} a b)', 'C10')
    add('max', 'PP', 'P', f'{T}::max(x, y)', f'crate.{m}.{T}.max x y', f'some (Spec.pmax {F} a b)', 'C10')
    add('clamp', 'PPP', 'P', f'{T}::clamp(x, y, z)', f'crate.{m}.{T}.clamp x y z',
        f'(if Spec.le {F} b c then some (Spec.pmin {F} (Spec.pmax {F} a b) c) else none)', 'C10')
    add('abs', 'P', 'P', f'{T}::abs(x)', f'crate.{m}.{T}.abs x', f'some (Spec.abs {F} a)', 'C10')
    add('signum', 'P', 'P', f'{T}::signum(x)', f'crate.{m}.{T}.signum x', f'some (Spec.signum {F} a)', 'C10')
    add('copysign', 'PP', 'P', f'{T}::copysign(x, y)', f'crate.{m}.{T}.copysign x y', f'some (Spec.copysign {F} a b)', 'C10')
    add('is_sign_positive', 'P', 'bool', f'{T}::is_sign_positive(x)', f'crate.{m}.{T}.is_sign_positive x', b(f'!(Spec.sint {F} a < 0)'), 'C10')
    add('is_sign_negative', 'P', 'bool', f'{T}::is_sign_negative(x)', f'crate.{m}.{T}.is_sign_negative x', b(f'Spec.sint {F} a < 0'), 'C10')
    add('is_zero', 'P', 'bool', f'{T}::is_zero(x)', f'crate.{m}.{T}.is_zero x', b('a == 0'), 'C10')
    add('is_nar', 'P', 'bool', f'{T}::is_nar(x)', f'crate.{m}.{T}.is_nar x', b(f'a == Spec.nar {F}'), 'C10')
    add('is_nan', 'P', 'bool', f'{T}::is_nan(x)', f'crate.{m}.{T}.is_nan x', b(f'a == Spec.nar {F}'), 'C10')
    add('is_finite', 'P', 'bool', f'{T}::is_finite(x)', f'crate.{m}.{T}.is_finite x', b(f'a != Spec.nar {F}'), 'C10')
    add('is_infinite', 'P', 'bool', f'{T}::is_infinite(x)', f'crate.{m}.{T}.is_infinite x', b(f'a == Spec.nar {F}'), 'C10')
    # classify: not translated (match on associated constants) - implementation against the specification only; codes: Nan 0, Zero 2, Normal 4
    add('classify', 'P', 'cat', f'{T}::classify(x)', None, f'some (if a == 0 then 2 else if a == Spec.nar {F} then 0 else 4)', 'C10')
    add('Float_classify', 'P', 'cat', 'num_traits::Float::classify(x)', None, f'some (if a == 0 then 2 else if a == Spec.nar {F} then 0 else 4)', 'C17')
    # is_normal is not among the operations C10 names (the crate defines it as !is_nar): model-vs-impl only
    add('is_normal', 'P', 'bool', f'{T}::is_normal(x)', f'crate.{m}.{T}.is_normal x', None, 'C10')
    add('recip', 'P', 'P', 'x.recip()', f'crate.{m}.{T}.recip x', f'some (Spec.div {F} (Spec.one {F}) a)', 'C01')
    # ---- C17 num_traits spellings (model = same inherent op)
    for o in ('abs', 'signum'):
        add('Signed_' + o, 'P', 'P', f'num_traits::Signed::{o}(&x)', f'crate.{m}.{T}.Signed.{o} x', f'some (Spec.{o} {F} a)', 'C17')
    # num_traits' documented contract of abs_sub: zero if self <= other, else self - other (posit order: NaR is least)
    add('Signed_abs_sub', 'PP', 'P', 'num_traits::Signed::abs_sub(&x, &y)', f'crate.{m}.{T}.Signed.abs_sub x y',
        f'some (if Spec.sint {F} a <= Spec.sint {F} b then 0 else Spec.sub {F} a b)', 'C17')
    add('Signed_is_negative', 'P', 'bool', 'num_traits::Signed::is_negative(&x)', f'crate.{m}.{T}.Signed.is_negative x', b(f'Spec.sint {F} a < 0'), 'C17')
    add('Signed_is_positive', 'P', 'bool', 'num_traits::Signed::is_positive(&x)', f'crate.{m}.{T}.Signed.is_positive x', b(f'!(Spec.sint {F} a < 0)'), 'C17')
    add('Zero_is_zero', 'P', 'bool', 'num_traits::Zero::is_zero(&x)', f'crate.{m}.{T}.Zero.is_zero x', b('a == 0'), 'C17')
    add('One_is_one', 'P', 'bool', 'num_traits::One::is_one(&x)', f'crate.{m}.{T}.One.is_one x', b(f'a == Spec.one {F}'), 'C17')
    for o, s in (('sqrt', f'Spec.sqrt {F} a'), ('round', f'Spec.roundI {F} 0 a'), ('floor', f'Spec.roundI {F} 1 a'), ('ceil', f'Spec.roundI {F} 2 a'),
                 ('trunc', f'Spec.roundI {F} 3 a'), ('fract', f'Spec.fract {F} a'), ('abs', f'Spec.abs {F} a'), ('signum', f'Spec.signum {F} a'),
                 ('recip', f'Spec.div {F} (Spec.one {F}) a')):
        add('Float_' + o, 'P', 'P', f'num_traits::Float::{o}(x)', f'crate.{m}.{T}.Float.{o} x', f'some ({s})', 'C17')
    add('Float_mul_add', 'PPP', 'P', 'num_traits::Float::mul_add(x, y, z)', f'crate.{m}.{T}.Float.mul_add x y z', f'some (Spec.fma {F} 0 a b c)', 'C17')
    add('Float_min', 'PP', 'P', 'num_traits::Float::min(x, y)', f'crate.{m}.{T}.Float.min x y', f'some (Spec.pmin {F} a b)', 'C17')
    add('Float_max', 'PP', 'P', 'num_traits::Float::max(x, y)', f'crate.{m}.{T}.Float.max x y', f'some (Spec.pmax {F} a b)', 'C17')
    for k in ('i64', 'u64'):
        w = 64; sg = 'true' if k[0] == 'i' else 'false'
        add('ToPrimitive_to_' + k, 'P', 'opt' + k, f'num_traits::ToPrimitive::to_{k}(&x)', f'crate.{m}.{T}.ToPrimitive.to_{k} x', f'Spec.toInt {F} {w} {sg} a', 'C17')
    add('ToPrimitive_to_f64', 'P', 'f64', 'num_traits::ToPrimitive::to_f64(&x).unwrap()', f'(do let r ← crate.{m}.{T}.ToPrimitive.to_f64 x; pure r.get!)', f'some (Spec.toF64 {F} a)', 'C17')
    for k in ('i8', 'i16', 'i32', 'i64', 'u8', 'u16', 'u32', 'u64'):
        w = INTS[k]; sg = 'true' if k[0] == 'i' else 'false'
        add('FromPrimitive_from_' + k, [k], 'optP', f'<{T} as num_traits::FromPrimitive>::from_{k}(x)', f'crate.{m}.{T}.FromPrimitive.from_{k} x', f'some (Spec.ofInt {F} {w} {sg} (a % 2^{w}))', 'C17')
    add('FromPrimitive_from_f64', ['f64'], 'optP', f'<{T} as num_traits::FromPrimitive>::from_f64(x)', f'crate.{m}.{T}.FromPrimitive.from_f64 x', f'some (Spec.ofF64 {F} a)', 'C17')
    add('FromPrimitive_from_f32', ['f32'], 'optP', f'<{T} as num_traits::FromPrimitive>::from_f32(x)', f'crate.{m}.{T}.FromPrimitive.from_f32 x', f'some (Spec.ofF32 {F} a)', 'C17')
    # ---- elementary functions (C11 / C15): spec = none here (oracle tables are checked elsewhere)
    if ty == 'p16':
        for o in ('exp', 'exp2', 'ln', 'log2', 'sin_pi', 'cos_pi', 'tan_pi', 'asin_pi', 'acos_pi', 'atan_pi'):
            add(o, 'P', 'P', f'x.{o}()', f'crate.p16e1.math.{o}.P16E1.{o} x', f'some (Spec.Tables.p16_{o}[a]!)', 'C11')
        for o in ('exp', 'exp2', 'ln', 'log2'):
            add('Float_' + o, 'P', 'P', f'num_traits::Float::{o}(x)', f'crate.p16e1.P16E1.Float.{o} x', f'some (Spec.Tables.p16_{o}[a]!)', 'C17')
    if ty == 'p8':
        for o in ('exp', 'ln'):
            add(o, 'P', 'P', f'x.{o}()', f'crate.p8e0.math.{o}.P8E0.{o} x', f'some (Spec.Tables.p8_{o}[a]!)', 'C11')
            add('Float_' + o, 'P', 'P', f'num_traits::Float::{o}(x)', f'crate.p8e0.P8E0.Float.{o} x', f'some (Spec.Tables.p8_{o}[a]!)', 'C17')
    if ty == 'p32':
        for o in ('sin', 'cos', 'tan', 'asin', 'acos', 'atan', 'ln', 'log2', 'exp', 'exp2', 'sinh', 'cosh', 'cbrt'):
            add(o, 'P', 'P', f'x.{o}()', f'crate.p32e2.math.sleef.{o} x', None, 'C15')
        for o in ('atan2', 'hypot'):
            add(o, 'PP', 'P', f'x.{o}(y)', f'crate.p32e2.math.sleef.{o} x y', None, 'C15')
        add('powf', 'PP', 'P', 'x.powf(y)', 'crate.p32e2.math.P32E2.powf x y', None, 'C15')
        for o in ('sin', 'cos', 'tan', 'asin', 'acos', 'atan', 'ln', 'log2', 'exp', 'exp2', 'sinh', 'cosh', 'cbrt'):
            add('Float_' + o, 'P', 'P', f'num_traits::Float::{o}(x)', f'crate.p32e2.P32E2.Float.{o} x', None, 'C17')
        for o in ('atan2', 'hypot', 'powf'):
            add('Float_' + o, 'PP', 'P', f'num_traits::Float::{o}(x, y)', f'crate.p32e2.P32E2.Float.{o} x y', None, 'C17')
    # ---- C16 totality / profile independence of the remaining implemented public operations (no specification: model-vs-implementation
    # and panic / timeout / profile-difference detection only); `%=` is also a C17 spelling of rem
    add('rem_assign', 'PP', 'P', '{ let mut w = x; w %= y; w }', f'(do let r ← crate.{m}.ops.{T}.RemAssign.rem_assign x y; pure r.2)', None, 'C17')
    for o in ('div_euclid', 'rem_euclid'):
        add(o, 'PP', 'P', f'x.{o}(y)', f'crate.{m}.math.{T}.{o} x y', None, 'C16')
    add('asinh', 'P', 'P', 'x.asinh()', f'crate.{m}.math.{T}.asinh x', None, 'C16')
    add('acosh', 'P', 'P', 'x.acosh()', None, None, 'C16')          # `match` with a guard: not translated (model: none)
    if ty != 'p8':
        for o in ('to_degrees', 'to_radians'):
            add(o, 'P', 'P', f'x.{o}()', f'crate.{m}.{T}.{o} x', None, 'C16')
    if ty == 'p32':
        add('tanh', 'P', 'P', 'x.tanh()', 'crate.p32e2.math.P32E2.tanh x', None, 'C16')
        add('exp10', 'P', 'P', 'x.exp10()', 'crate.p32e2.math.P32E2.exp10 x', None, 'C16')
        add('sin_cos', 'P', 'u64', '{ let (s_, c_) = x.sin_cos(); ((s_.to_bits() as u64) << 32) | (c_.to_bits() as u64) }',
            '(do let r ← crate.p32e2.math.P32E2.sin_cos x; pure ((Rs.cast_u32_u64 (Rs.cast_i32_u32 r.1) <<< 32) ||| Rs.cast_u32_u64 (Rs.cast_i32_u32 r.2)))', None, 'C16')
    return R

# ------------------------------------------------------------------------------------------------ generic-width posits
GG_WIDTHS = (2, 3, 4, 5, 7, 8, 9, 12, 15, 16, 17, 20, 24, 25, 28, 31, 32)   # second width of the generic-to-generic conversions instantiated in the harness
PX = {'px1': dict(T='PxE1', mod='pxe1', es=1, fmt='Spec.px1'), 'px2': dict(T='PxE2', mod='pxe2', es=2, fmt='Spec.px2')}

def px_ops(ty):
    """ops of PxE1<N> / PxE2<N>; line protocol `<ty> <op> <N> a [b [c]]`.  Kind 'X' = a value of the generic type (u32 bits,
    left-aligned); specs see `n : Nat` and return `none` when an operand has non-zero low 32-N bits (outside C13/C14)."""
    t = PX[ty]; T = t['T']; m = t['mod']; F = f'({t["fmt"]} n)'
    R = []
    def add(op, args, ret, rust, lean, spec=None, prop=''):
        R.append((op, args, ret, rust, lean, spec, prop))
    X1 = lambda e: f'(Spec.pxLift1 n a (fun a => {e}))'
    X2 = lambda e: f'(Spec.pxLift2 n a b (fun a b => {e}))'
    X3 = lambda e: f'(Spec.pxLift3 n a b c (fun a b c => {e}))'
    for o, sym in (('add', '+'), ('sub', '-'), ('mul', '*'), ('div', '/')):
        tr = o.capitalize()
        add(o, 'XX', 'X', f'x {sym} y', f'crate.{m}.ops.{T}.{tr}.{o} n x y', X2(f'Spec.embed n (Spec.{o} {F} a b)'), 'C13')
        add(o + '_assign', 'XX', 'X', f'{{ let mut w = x; w {sym}= y; w }}', f'(do let r ← crate.{m}.ops.{T}.{tr}Assign.{o}_assign n x y; pure r.2)', X2(f'Spec.embed n (Spec.{o} {F} a b)'), 'C13')
    add('neg', 'X', 'X', '-x', f'crate.{m}.ops.{T}.Neg.neg n x', X1(f'Spec.embed n (Spec.neg {F} a)'), 'C10')
    for i, o in enumerate(('mul_add', 'mul_sub')):
        add(o, 'XXX', 'X', f'x.{o}(y, z)', f'crate.{m}.math.{T}.{o} n x y z', X3(f'Spec.embed n (Spec.fma {F} {i} a b c)'), 'C13')
    add('sub_product', 'XXX', 'X', 'z.sub_product(x, y)', f'crate.{m}.math.{T}.sub_product n z x y', X3(f'Spec.embed n (Spec.fma {F} 2 a b c)'), 'C13')
    if ty == 'px2':   # PxE1 has no sqrt
        add('sqrt', 'X', 'X', 'x.sqrt()', f'crate.{m}.math.{T}.sqrt n x', X1(f'Spec.embed n (Spec.sqrt {F} a)'), 'C13')
    add('round', 'X', 'X', f'{T}::<N>::round(x)', f'crate.{m}.math.{T}.round n x', X1(f'Spec.embed n (Spec.roundI {F} 0 a)'), 'C13')
    b = lambda e: f'(if {e} then 1 else 0)'
    for o, s in (('lt', f'Spec.lt {F} a b'), ('le', f'Spec.le {F} a b'), ('gt', f'Spec.lt {F} b a'), ('ge', f'Spec.le {F} b a'), ('eq', 'a == b')):
        add(o, 'XX', 'bool', f'x.{o}(y)', f'crate.{m}.{T}.{o} n x y', X2(b(s)), 'C10')
    add('cmp', 'XX', 'ord', f'{T}::<N>::cmp(x, y)', f'crate.{m}.{T}.cmp n x y', X2(f'Spec.cmp {F} a b'), 'C10')
    # operator / derived-trait forms (PartialEq, PartialOrd, Ord of the generic types)
    pc = f'crate.{m}.{T}.PartialOrd.partial_cmp n x y'
    add('op_lt', 'XX', 'bool', 'x < y', f'(do let o ← {pc}; pure (o == some 0))', X2(b(f'Spec.lt {F} a b')), 'C10')
    add('op_le', 'XX', 'bool', 'x <= y', f'(do let o ← {pc}; pure (o == some 0 || o == some 1))', X2(b(f'Spec.le {F} a b')), 'C10')
    add('op_gt', 'XX', 'bool', 'x > y', f'(do let o ← {pc}; pure (o == some 2))', X2(b(f'Spec.lt {F} b a')), 'C10')
    add('op_ge', 'XX', 'bool', 'x >= y', f'(do let o ← {pc}; pure (o == some 2 || o == some 1))', X2(b(f'Spec.le {F} b a')), 'C10')
    add('op_eq', 'XX', 'bool', 'x == y', f'crate.{m}.{T}.PartialEq.eq n x y', X2(b('a == b')), 'C10')
    add('Ord_cmp', 'XX', 'ord', 'Ord::cmp(&x, &y)', f'crate.{m}.{T}.Ord.cmp n x y', X2(f'Spec.cmp {F} a b'), 'C10')
    add('partial_cmp', 'XX', 'optord', 'PartialOrd::partial_cmp(&x, &y)', pc, X2(f'Spec.cmp {F} a b'), 'C10')
    add('Ord_min', 'XX', 'X', 'Ord::min(x, y)', f'(do let o ← crate.{m}.{T}.Ord.cmp n x y; pure (if o == 2 then y else x))', X2(f'Spec.embed n (Spec.pmin {F} a b)'), 'C10')
    add('Ord_max', 'XX', 'X', 'Ord::max(x, y)', f'(do let o ← crate.{m}.{T}.Ord.cmp n x y; pure (if o == 2 then x else y))', X2(f'Spec.embed n (Spec.pmax {F} a b)'), 'C10')
    add('is_zero', 'X', 'bool', 'x.is_zero()', f'crate.{m}.{T}.is_zero n x', X1(b('a == 0')), 'C10')
    add('is_nar', 'X', 'bool', 'x.is_nar()', f'crate.{m}.{T}.is_nar n x', X1(b(f'a == Spec.nar {F}')), 'C10')
    # conversions (C14)
    add('to_f64', 'X', 'f64', 'x.to_f64()', f'crate.{m}.convert.{T}.to_f64 n x', X1(f'Spec.toF64 {F} a'), 'C14')
    add('to_f32', 'X', 'f32', 'x.to_f32()', f'crate.{m}.convert.{T}.to_f32 n x', X1(f'Spec.toF32 {F} a'), 'C14')
    add('f64_From', 'X', 'f64', 'f64::from(x)', f'crate.{m}.convert.f64.From.from n x', X1(f'Spec.toF64 {F} a'), 'C14')
    add('f32_From', 'X', 'f32', 'f32::from(x)', f'crate.{m}.convert.f32.From.from n x', X1(f'Spec.toF32 {F} a'), 'C14')
    add('from_f64', ['f64'], 'X', f'{T}::<N>::from_f64(x)', f'crate.{m}.convert.{T}.from_f64 n x', f'some (Spec.embed n (Spec.ofF64 {F} a))', 'C14')
    add('from_f32', ['f32'], 'X', f'{T}::<N>::from_f32(x)', f'crate.{m}.convert.{T}.from_f32 n x', f'some (Spec.embed n (Spec.ofF32 {F} a))', 'C14')
    add('From_f64', ['f64'], 'X', f'{T}::<N>::from(x)', f'crate.{m}.convert.{T}.From_f64.from n x', f'some (Spec.embed n (Spec.ofF64 {F} a))', 'C14')
    add('From_f32', ['f32'], 'X', f'{T}::<N>::from(x)', f'crate.{m}.convert.{T}.From_f32.from n x', f'some (Spec.embed n (Spec.ofF32 {F} a))', 'C14')
    for k in ('i32', 'u32', 'i64', 'u64'):
        w = INTS[k]; sg = 'true' if k[0] == 'i' else 'false'
        if ty == 'px1' and k in ('i64', 'u32'):      # PxE1::from_i64 / from_u32 are explicit todo!() stubs: outside C14/C16
            add('to_' + k, 'X', k, f'x.to_{k}()', f'crate.{m}.convert.{T}.to_{k} n x', f'(match Spec.pxIn n a with | some a => Spec.toInt {F} {w} {sg} a | none => none)', 'C14')
            add(k + '_From', 'X', k, f'{k}::from(x)', f'crate.{m}.convert.{k}.From.from n x', f'(match Spec.pxIn n a with | some a => Spec.toInt {F} {w} {sg} a | none => none)', 'C14')
            continue
        add('from_' + k, [k], 'X', f'{T}::<N>::from_{k}(x)', f'crate.{m}.convert.{T}.from_{k} n x', f'some (Spec.embed n (Spec.ofInt {F} {w} {sg} (a % 2^{w})))', 'C14')
        add('From_' + k, [k], 'X', f'{T}::<N>::from(x)', f'crate.{m}.convert.{T}.From_{k}.from n x', f'some (Spec.embed n (Spec.ofInt {F} {w} {sg} (a % 2^{w})))', 'C14')
        add('to_' + k, 'X', k, f'x.to_{k}()', f'crate.{m}.convert.{T}.to_{k} n x', f'(match Spec.pxIn n a with | some a => Spec.toInt {F} {w} {sg} a | none => none)', 'C14')
        add(k + '_From', 'X', k, f'{k}::from(x)', f'crate.{m}.convert.{k}.From.from n x', f'(match Spec.pxIn n a with | some a => Spec.toInt {F} {w} {sg} a | none => none)', 'C14')
    for o, t2 in TYPES.items():
        T2 = t2['T']; m2 = t2['mod']
        add('to_' + o, 'X', o, f'{T2}::from(x)', f'crate.convert.{T2}.From_{T}.from n x', X1(f'Spec.conv {F} {t2["fmt"]} a'), 'C14')
        add('to_' + o + '_m', 'X', o, f'x.to_{m2}()', f'crate.convert.{T}.to_{m2} n x', X1(f'Spec.conv {F} {t2["fmt"]} a'), 'C14')
        add('from_' + o, [o], 'X', f'{T}::<N>::from(x)', f'crate.convert.{T}.From_{T2}.from n x', f'some (Spec.embed n (Spec.conv {t2["fmt"]} {F} a))', 'C14')
        add('from_' + o + '_m', [o], 'X', f'{T}::<N>::from_{m2}(x)', f'crate.convert.{T}.from_{m2} n x', f'some (Spec.embed n (Spec.conv {t2["fmt"]} {F} a))', 'C14')
        add(o + '_to_px', [o], 'X', f'x.to_{m}::<N>()', f'crate.convert.{T2}.to_{m} n x', f'some (Spec.embed n (Spec.conv {t2["fmt"]} {F} a))', 'C14')
        add(o + '_from_px', 'X', o, f'{T2}::from_{m}(x)', f'crate.convert.{T2}.from_{m} n x', X1(f'Spec.conv {F} {t2["fmt"]} a'), 'C14')
    # generic-to-generic (C14: "to another generic width or exponent size"): second width M is the first argument (x), the M- resp.
    # N-bit source pattern the second (y); the harness instantiates the source/target widths of GG_WIDTHS
    o_es = '2' if ty == 'px1' else '1'; O = 'PxE' + o_es; om = 'pxe' + o_es; OF = f'Spec.px{o_es}'
    def mm(e): return 'match x { ' + ' '.join(f'{M} => {{ {e.replace("@M", str(M))} }}' for M in GG_WIDTHS) + ' _ => return None }'
    src_o = f'(if 2 ≤ n ∧ n ≤ 32 then Spec.pxLift1 a b (fun s => Spec.embed n (Spec.conv ({OF} a) {F} s)) else none)'
    add(f'gg_from_px{o_es}', ['u32', 'u32'], 'X', mm(f'{T}::<N>::from_{om}({O}::<@M>::from_bits(y))'), f'crate.convert.{T}.from_{om} n x (Rs.cast_u32_i32 y)', src_o, 'C14')
    add(f'gg_From_px{o_es}', ['u32', 'u32'], 'X', mm(f'{T}::<N>::from({O}::<@M>::from_bits(y))'), f'crate.convert.{T}.From_{O}.from x n (Rs.cast_u32_i32 y)', src_o, 'C14')
    add(f'gg_to_px{o_es}', ['u32', 'u32'], 'u32', mm(f'{T}::<N>::from_bits(y).to_{om}::<@M>().to_bits()'), f'(do let r ← crate.convert.{T}.to_{om} n x (Rs.cast_u32_i32 y); pure (Rs.cast_i32_u32 r))',
        f'(if 2 ≤ a ∧ a ≤ 32 then Spec.pxLift1 n b (fun s => Spec.embed a (Spec.conv {F} ({OF} a) s)) else none)', 'C14')
    if ty == 'px2':
        add('gg_from_px2', ['u32', 'u32'], 'X', mm(f'{T}::<N>::from_pxe2({T}::<@M>::from_bits(y))'), f'crate.convert.{T}.from_pxe2 n x (Rs.cast_u32_i32 y)',
            f'(if 2 ≤ n ∧ n ≤ 32 then Spec.pxLift1 a b (fun s => Spec.embed n (Spec.conv (Spec.px2 a) {F} s)) else none)', 'C14')
    return R


def forwarders(ty):
    """C17: (spelled operation, inherent operation it must agree with, arg kinds) — both are entries of ops_for(ty)"""
    P = []
    for o in ('add', 'sub', 'mul', 'div'):
        P += [(o, o + '_m'), (o + '_assign', o + '_m')]
    P += [('neg', 'neg_m'), ('rem', 'rem_m'), ('rem_assign', 'rem_m')]
    for k in INTS:
        P += [('From_' + k, 'from_' + k), (k + '_From', 'to_' + k)]
    P += [('From_f64', 'from_f64'), ('From_f32', 'from_f32'), ('f64_From', 'to_f64'), ('f32_From', 'to_f32')]
    for o in TYPES:
        if o != ty: P += [('to_' + o, 'to_' + o + '_m')]
    for o in ('abs', 'signum'): P += [('Signed_' + o, o)]
    P += [('Signed_is_negative', 'is_sign_negative'), ('Signed_is_positive', 'is_sign_positive'), ('Zero_is_zero', 'is_zero')]
    for o in ('sqrt', 'round', 'floor', 'ceil', 'trunc', 'fract', 'abs', 'signum', 'recip', 'mul_add', 'min', 'max',
              'sin', 'cos', 'tan', 'asin', 'acos', 'atan', 'ln', 'log2', 'exp', 'exp2', 'sinh', 'cosh', 'cbrt', 'atan2', 'hypot', 'powf', 'classify'):
        P += [('Float_' + o, o)]
    P += [('lt', 'lt_m'), ('le', 'le_m'), ('gt', 'gt_m'), ('ge', 'ge_m'), ('eq', 'eq_m'), ('cmp', 'cmp_m')]
    ops = {op: (args, lean) for (op, args, ret, rust, lean, spec, prop) in ops_for(ty)}
    return [(a, b, list(ops[a][0])) for a, b in P if a in ops and b in ops and list(ops[a][0]) == list(ops[b][0])]
