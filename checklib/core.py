"""Shared machinery of ./check: build (tie A), correspondence + oracle runs (tie B), proof obligations, classification,
known findings, evidence, VIOLATION protocol (DESIGN.md §5)."""
import os, sys, json, subprocess, time, random, fcntl, hashlib, re, shutil, collections, concurrent.futures

VERIF = os.path.dirname(os.path.dirname(os.path.abspath(__file__)))
REPO = os.environ.get('VERIF_REPO', '/repo')
WORK = os.path.join(VERIF, 'work')
LEAN = os.path.join(VERIF, 'lean')
TARGET = os.path.join(WORK, 'target-harness')
NCPU = min(16, os.cpu_count() or 4)
sys.path.insert(0, os.path.join(VERIF, 'translator'))
sys.path.insert(0, VERIF)

ALLOWED_AXIOMS = {'propext', 'Classical.choice', 'Quot.sound'}

class BuildError(Exception):
    pass

def log(*a):
    print(*a, flush=True)

def run(cmd, cwd=None, env=None, timeout=None, input=None):
    e = dict(os.environ)
    e['CARGO_NET_OFFLINE'] = 'true'
    if env: e.update(env)
    return subprocess.run(cmd, cwd=cwd, env=e, stdout=subprocess.PIPE, stderr=subprocess.STDOUT, text=True, timeout=timeout, input=input)

class Lock:
    def __enter__(self):
        os.makedirs(WORK, exist_ok=True)
        self.f = open(os.path.join(WORK, '.lock'), 'w')
        fcntl.flock(self.f, fcntl.LOCK_EX)
    def __exit__(self, *a):
        fcntl.flock(self.f, fcntl.LOCK_UN); self.f.close()

# ----------------------------------------------------------------------------------------------- build

def regenerate():
    """tie A: regenerate Gen from /repo's working tree; returns the gen index"""
    r = run([sys.executable, os.path.join(VERIF, 'translator/gen.py'), '--repo', REPO, '--work', WORK, '--out', os.path.join(LEAN, 'Gen')])
    log(r.stdout.strip())
    if r.returncode != 0:
        raise BuildError('translator failed (does /repo compile?):\n' + r.stdout[-3000:])
    for script in ('translator/mkdriver.py', 'translator/mkextra.py', 'tools/mkprops.py'):
        r = run([sys.executable, os.path.join(VERIF, script)] + ([VERIF] if script.startswith('translator') else []))
        if script.endswith('mkdriver.py'): log(r.stdout.strip())
        if r.returncode != 0:
            raise BuildError(script + ' failed:\n' + r.stdout[-3000:])
    return json.load(open(os.path.join(WORK, 'gen_index.json')))

def build_harness():
    lock = os.path.join(VERIF, 'harness/Cargo.lock')
    if not os.path.exists(lock):
        shutil.copy(os.path.join(REPO, 'Cargo.lock'), lock)
    for prof in ('dev', 'release'):
        cmd = ['cargo', 'build', '--offline'] + (['--release'] if prof == 'release' else [])
        r = run(cmd, cwd=os.path.join(VERIF, 'harness'), env={'CARGO_TARGET_DIR': TARGET, 'RUSTFLAGS': '--cfg softposit_verif'})
        if r.returncode != 0:
            raise BuildError('harness build (%s) failed:\n%s' % (prof, r.stdout[-4000:]))
    return {'dev': os.path.join(TARGET, 'debug/verif_harness'), 'release': os.path.join(TARGET, 'release/verif_harness')}

def lake_build(targets):
    """returns (ok, output)"""
    r = run(['lake', 'build'] + list(targets), cwd=LEAN)
    return r.returncode == 0, r.stdout

def audit(module):
    """list theorems of a Props module with their axioms: {name: [axioms]}"""
    f = os.path.join(WORK, 'audit_%s.lean' % module.replace('.', '_'))
    open(f, 'w').write('import AuditTool\nimport %s\n#audit %s\n' % (module, module))
    r = run(['lake', 'env', 'lean', f], cwd=LEAN)
    out = {}
    for m in re.finditer(r'AUDIT (\S+) :(.*)', r.stdout):
        out[m.group(1)] = m.group(2).split()
    return out, r.stdout if r.returncode != 0 else ''

# ----------------------------------------------------------------------------------------------- correspondence

def _run_chunk(args):
    idx, lines, bins, want_model, want_spec, tag = args
    d = os.path.join(WORK, 'runs', tag); os.makedirs(d, exist_ok=True)
    inp = os.path.join(d, 'in_%d.txt' % idx)
    open(inp, 'w').write('\n'.join(lines) + '\n')
    res = {'n': len(lines), 'model': [], 'spec': [], 'profile': [], 'panic': [], 'timeout': [], 'summary': {}, 'unsupported': 0}
    outs = {}
    for prof in ('dev', 'release'):
        cur = lines; done = []
        while True:
            try:
                p = subprocess.run([bins[prof]], input='\n'.join(cur) + '\n', stdout=subprocess.PIPE, stderr=subprocess.PIPE, text=True, timeout=1500)
            except subprocess.TimeoutExpired as e_:
                # safety net above the in-process watchdog: never leave a spinning harness behind
                done.append('HARNESS_CRASH rc=timeout the harness did not finish %d lines in 1500 s' % len(cur)); break
            got = p.stdout.splitlines()
            if p.returncode == 3:
                m = re.search(r'TIMEOUT (\d+)', p.stderr); k = int(m.group(1)) if m else len(got)
                # rerun the prefix (buffered output is lost), mark line k as TIMEOUT, continue after it
                if k > 0:
                    q = subprocess.run([bins[prof]], input='\n'.join(cur[:k]) + '\n', stdout=subprocess.PIPE, stderr=subprocess.PIPE, text=True)
                    done += q.stdout.splitlines()
                done.append(cur[k] + ' => TIMEOUT')
                cur = cur[k + 1:]
                if not cur: break
                continue
            if p.returncode != 0:
                done += got
                done.append('HARNESS_CRASH rc=%d %s' % (p.returncode, p.stderr[-200:].replace('\n', ' ')))
                break
            done += got; break
        outs[prof] = done
    dev = outs['dev']; rel = outs['release']
    outp = os.path.join(d, 'out_%d.txt' % idx)
    open(outp, 'w').write('\n'.join(dev) + '\n')
    for a, b in zip(dev, rel):
        if a != b: res['profile'].append((a, b))
    for a in dev:
        if a.endswith('=> PANIC'): res['panic'].append(a)
        elif a.endswith('=> TIMEOUT'): res['timeout'].append(a)
        elif a.endswith('=> UNSUPPORTED'): res['unsupported'] += 1
        elif a.startswith('HARNESS_CRASH'): res['timeout'].append(a)
    for b in rel:
        if b.endswith('=> TIMEOUT') and b not in res['timeout']: res['timeout'].append(b + ' [release]')
    for kind, exe, want in (('model', 'modeldriver', want_model), ('spec', 'specdriver', want_spec)):
        if not want: continue
        try:
            p = subprocess.run([os.path.join(LEAN, '.lake/build/bin', exe)], input='\n'.join(dev) + '\n', stdout=subprocess.PIPE, stderr=subprocess.PIPE, text=True, timeout=3000)
        except subprocess.TimeoutExpired:
            res[kind].append('DRIVER_CRASH %s rc=timeout' % exe); continue
        if p.returncode != 0:
            res[kind].append('DRIVER_CRASH %s rc=%d %s' % (exe, p.returncode, p.stderr[-300:]))
        for l in p.stdout.splitlines():
            if l.startswith('SUMMARY'):
                res['summary'][kind] = dict(kv.split('=') for kv in l.split()[2:])
            elif '_MISMATCH' in l:
                res[kind].append(l)
    return res

def correspond(lines, bins, tag, want_model=True, want_spec=True):
    """run the real crate (both profiles), the model and the spec on `lines`; returns aggregated result"""
    lines = list(lines)
    random.Random(len(lines)).shuffle(lines)      # spread slow cases (panics, watchdog timeouts) evenly over the parallel chunks
    nchunks = max(1, min(NCPU, len(lines) // 2000 + 1))
    size = (len(lines) + nchunks - 1) // nchunks
    chunks = [(i, lines[i * size:(i + 1) * size], bins, want_model, want_spec, tag) for i in range(nchunks) if lines[i * size:(i + 1) * size]]
    agg = {'n': 0, 'model': [], 'spec': [], 'profile': [], 'panic': [], 'timeout': [], 'unsupported': 0,
           'summary': {'model': collections.Counter(), 'spec': collections.Counter()}}
    with concurrent.futures.ProcessPoolExecutor(max_workers=NCPU) as ex:
        for r in ex.map(_run_chunk, chunks):
            agg['n'] += r['n']; agg['unsupported'] += r['unsupported']
            for k in ('model', 'spec', 'profile', 'panic', 'timeout'): agg[k] += r[k]
            for k in ('model', 'spec'):
                for kk, v in r['summary'].get(k, {}).items(): agg['summary'][k][kk] += int(v)
    return agg

# ----------------------------------------------------------------------------------------------- known findings

def load_known():
    f = os.path.join(VERIF, 'known_findings.json')
    if not os.path.exists(f): return []
    return json.load(open(f)).get('findings', [])

def parse_line(l):
    """'SPEC_MISMATCH p8 mul_sub f6 2a 6 => ff spec=f3' -> dict"""
    m = re.match(r'(\w+)_MISMATCH (.*?) => (.*?) (?:model|spec)=(.*)$', l)
    if not m:
        m2 = re.match(r'(.*?) => (.*)$', l)
        if m2:
            ws = m2.group(1).split()
            return {'kind': 'RAW', 'ty': ws[0], 'op': ws[1], 'args': ws[2:], 'impl': m2.group(2), 'want': None, 'line': l}
        return {'kind': 'OTHER', 'ty': '?', 'op': '?', 'args': [], 'impl': '?', 'want': '?', 'line': l}
    ws = m.group(2).split()
    return {'kind': m.group(1), 'ty': ws[0], 'op': ws[1], 'args': ws[2:], 'impl': m.group(3), 'want': m.group(4), 'line': l}


def _o15(f):
    p = subprocess.run(['python3-vt', os.path.join(VERIF, 'checklib/oracle15.py')], stdin=open(f), stdout=subprocess.PIPE, stderr=subprocess.PIPE, text=True)
    return p.stdout.splitlines(), p.returncode, p.stderr[-300:]

def oracle15(res, tag):
    """C15: certified-by-recomputation oracle (mpmath, 400 bits) over the recorded implementation results"""
    d = os.path.join(WORK, 'runs', tag)
    files = sorted(os.path.join(d, f) for f in os.listdir(d) if f.startswith('out_'))
    res['ulp'] = []; res['oracle15'] = {'n': 0, 'over': 0, 'maxulp': {}}
    with concurrent.futures.ThreadPoolExecutor(max_workers=NCPU) as ex:
        for lines, rc, err in ex.map(_o15, files):
            if rc != 0: res['ulp'].append('ULP p32 oracle crash => ? correct=%s' % err.replace('\n', ' '))
            for l in lines:
                if l.startswith('ULP '): res['ulp'].append(l)
                elif l.startswith('SUMMARY15'):
                    kv = dict(x.split('=', 1) for x in l.split()[1:3])
                    res['oracle15']['n'] += int(kv['n']); res['oracle15']['over'] += int(kv['over'])
                    for it in l.split('maxulp=')[1].split():
                        k, v = it.split(':'); res['oracle15']['maxulp'][k] = max(res['oracle15']['maxulp'].get(k, 0), int(v))
    return res
