"""Known findings (genuine defects of the unchanged tree that are recorded rather than repaired).
known_findings.json is committed and never written at run time.  An entry suppresses only the failing cases that
its `class` predicate (below) recognises — a different violation of the same property is still reported."""
import json, os
from . import core

def _load():
    f = os.path.join(core.VERIF, 'known_findings.json')
    if not os.path.exists(f): return []
    return json.load(open(f)).get('findings', [])

CLASSES = {}
def cls(name):
    def deco(fn): CLASSES[name] = fn; return fn
    return deco

@cls('callsite')
def _callsite(k, f):
    if f.get('kind') == 'AGREE': return False        # a disagreement between two spellings is a different violation, never a known wrong value
    if (f['ty'] + '.' + f['op']) not in k['sites']: return False
    if k.get('widths'):
        try: n = int(f['args'][0], 16)
        except Exception: return False
        return n in k['widths']
    return True

@cls('ulp_excess')
def _ulp_excess(k, f):
    """an accuracy bound exceeded by a recorded margin: same call site, error no larger than the recorded maximum, inside the
    recorded operand box (a larger error, another function or another region is still reported)"""
    if f.get('kind') != 'ULP' or (f['ty'] + '.' + f['op']) not in k['sites']: return False
    import re
    m = re.search(r'ulp=(\d+)', f.get('want', ''))
    if not m or int(m.group(1)) > k['max_ulp']: return False
    lo, hi = int(k['box'][0], 16), int(k['box'][1], 16)
    try: return all(lo <= int(a, 16) <= hi for a in f['args'])
    except Exception: return False

def open_findings(pid):
    return [k for k in _load() if k.get('status', 'open') == 'open' and pid in k['properties']]

def match(pid, f):
    """f: parsed failing case {kind, ty, op, args, impl, want}; returns the id of the open finding that explains it"""
    for k in open_findings(pid):
        pred = CLASSES.get(k['class'])
        if pred and pred(k, f): return k['id']
    return None
