"""Input generators for the correspondence / oracle streams (DESIGN.md §5.2).
All random choices derive from one `random.Random(seed)`; every generator yields tuples of ints."""
import random, struct

def body_from(n, r0, rl, tail_mode, rng):
    """positive body of an n-bit posit with a regime run of `rl` bits equal to r0, then a terminator, then `tail_mode` bits"""
    m = n - 1
    rl = max(1, min(m, rl))
    bits = [r0] * rl
    if rl < m: bits.append(1 - r0)
    rest = m - len(bits)
    for i in range(rest):
        if tail_mode == 0: b = 0
        elif tail_mode == 1: b = 1
        elif tail_mode == 2: b = 1 if i == rest - 1 else 0
        elif tail_mode == 3: b = i & 1
        elif tail_mode == 4: b = 1 if i == 0 else 0
        elif tail_mode == 5: b = 0 if i == rest - 1 else 1
        else: b = rng.getrandbits(1)
        bits.append(b)
    c = 0
    for b in bits: c = c * 2 + b
    return c or 1

def structured_posit(n, rng):
    s = rng.getrandbits(1); rl = rng.randint(1, n - 1); r0 = rng.getrandbits(1)
    c = body_from(n, r0, rl, rng.randint(0, 8), rng)
    return ((1 << n) - c) & ((1 << n) - 1) if s else c

def special_posits(n):
    mask = (1 << n) - 1; nar = 1 << (n - 1)
    one = 1 << (n - 2)
    S = [0, nar, 1, mask, nar - 1, nar + 1, one, (-one) & mask, one + 1, one - 1, 2, 3, nar - 2, (one >> 1) or 1, one + (one >> 1)]
    return [x & mask for x in S]

def interesting_posits(n, rng, count):
    """every (sign, regime polarity, run length) × a few tails, then structured random fill"""
    out = list(special_posits(n))
    mask = (1 << n) - 1
    for rl in range(1, n):
        for r0 in (0, 1):
            for tm in (0, 1, 2, 4, 6):
                c = body_from(n, r0, rl, tm, rng)
                out.append(c); out.append(((1 << n) - c) & mask)
    while len(out) < count:
        out.append(structured_posit(n, rng) if rng.random() < 0.7 else rng.getrandbits(n))
    return out

def anyp(n, rng):
    t = rng.random()
    if t < 0.02: return 0
    if t < 0.04: return 1 << (n - 1)
    if t < 0.25: return rng.getrandbits(n)
    return structured_posit(n, rng)

def related_pair(n, rng):
    """pairs that reach rare paths: equal magnitudes, neighbours, near-cancellation, far scales"""
    mask = (1 << n) - 1
    a = anyp(n, rng)
    t = rng.randint(0, 9)
    if t == 0: b = a
    elif t == 1: b = (a + rng.choice((1, -1, 2, -2))) & mask
    elif t == 2: b = (-a) & mask
    elif t == 3: b = ((-a) + rng.choice((1, -1, 2, -2, 3))) & mask
    elif t == 4: b = (a ^ (1 << rng.randrange(n))) & mask
    elif t == 5: b = (a >> rng.randint(1, n - 1)) or 1
    else: b = anyp(n, rng)
    if rng.getrandbits(1): a, b = b, a
    return a, b

_ES = {8: 0, 16: 1, 32: 2}
def neartie_triple(n, rng):
    """(a, b, c) with a*b + c within a few units of the last place of an exact rounding TIE (or of a representable value):
    pick a, b, pick a target boundary t = the midpoint between two adjacent posits (an (n+1)-bit posit) or a posit itself,
    and let c be the posit nearest to t - a*b (and its neighbours).  This drives the sticky / borrow / guard logic that
    uniformly random or merely structured triples essentially never reach."""
    import sys, os
    sys.path.insert(0, os.path.join(os.path.dirname(os.path.dirname(os.path.abspath(__file__))), 'tools'))
    from pyspec import to_rat, rnd
    es = _ES[n]; mask = (1 << n) - 1
    while True:
        a = structured_posit(n, rng); b = structured_posit(n, rng)
        va, vb = to_rat(n, es, a), to_rat(n, es, b)
        if va is None or vb is None: continue
        z = structured_posit(n, rng)
        if z in (0, 1 << (n - 1)): continue
        # boundary: an (n+1)-bit posit between z and its successor (tie), or z itself
        t = to_rat(n + 1, es, ((z << 1) | rng.choice((0, 1, 1, 1))) & ((1 << (n + 1)) - 1))
        if t is None: continue
        d = t - va * vb
        if d == 0: continue
        c = rnd(n, es, d)
        c = (c + rng.choice((0, 0, 0, 1, -1, 2, -2))) & mask
        if c == (1 << (n - 1)): continue
        k = rng.randint(0, 2)
        if k == 1: a = (-a) & mask
        if k == 2: b = (-b) & mask; c = c
        return a, b, c

def neartie_pair(n, kind, rng):
    """operand pairs whose exact result sits on, or a sliver away from, a rounding boundary (tie between adjacent posits or a
    representable value): pick x and a boundary t, solve the operation for y and round it to a posit (and its neighbours)."""
    import sys, os
    sys.path.insert(0, os.path.join(os.path.dirname(os.path.dirname(os.path.abspath(__file__))), 'tools'))
    from pyspec import to_rat, rnd
    es = _ES[n]; mask = (1 << n) - 1; nar = 1 << (n - 1)
    while True:
        x = structured_posit(n, rng) if rng.random() < 0.6 else rng.getrandbits(n)
        z = structured_posit(n, rng) if rng.random() < 0.6 else rng.getrandbits(n)
        if x in (0, nar) or z in (0, nar): continue
        vx = to_rat(n, es, x)
        t = to_rat(n + 1, es, ((z << 1) | rng.choice((0, 1, 1, 1))) & ((1 << (n + 1)) - 1))
        if t is None or t == 0: continue
        if kind == 'add': q = t - vx
        elif kind == 'sub': q = vx - t          # x - y = t
        elif kind == 'mul': q = t / vx
        else: q = vx / t                        # x / y = t
        if q == 0: continue
        y = (rnd(n, es, q) + rng.choice((0, 0, 0, 1, -1))) & mask
        if y in (0, nar): continue
        return x, y

def halfulp_triple(n, rng):
    """(a, b, c) with a*b = ±(half an ulp of c)·(1+δ), |δ| tiny: c + a*b is an exact tie displaced by a sliver that lives
    only in the product bits the alignment shift discards (sticky / borrow handling of the |c| > |a*b| branch), and, by
    symmetry (swap roles), c tiny against the product."""
    import sys, os
    sys.path.insert(0, os.path.join(os.path.dirname(os.path.dirname(os.path.abspath(__file__))), 'tools'))
    from pyspec import to_rat, rnd
    es = _ES[n]; mask = (1 << n) - 1; nar = 1 << (n - 1)
    while True:
        c = structured_posit(n, rng) if rng.random() < 0.7 else rng.getrandbits(n)
        if c in (0, nar): continue
        vc = to_rat(n, es, c)
        up = rng.getrandbits(1)
        t = to_rat(n + 1, es, ((c << 1) + (1 if up else -1)) & ((1 << (n + 1)) - 1))   # tie just above / below c in pattern order
        if t is None or t == 0: continue
        p0 = t - vc
        if p0 == 0: continue
        a = rng.getrandbits(n - 1) | 1
        if a in (0, nar): continue
        va = to_rat(n, es, a)
        q = abs(p0) / va
        b = rnd(n, es, q)
        b = (b + rng.choice((0, 0, 0, 0, 1, -1))) & mask
        if b in (0, nar): continue
        if p0 < 0: a = (-a) & mask
        if rng.random() < 0.15:   # a few with the product pointing away from the tie
            a = (-a) & mask
        return a, b, c

def triple(n, rng):
    a, b = related_pair(n, rng) if rng.random() < 0.4 else (anyp(n, rng), anyp(n, rng))
    t = rng.randint(0, 5)
    mask = (1 << n) - 1
    if t == 0: c = anyp(n, rng)
    elif t == 1: c = 0 if rng.random() < 0.3 else 1 << (n - 1)
    else: c = anyp(n, rng)
    return a, b, c

def f64_bits(rng):
    t = rng.randint(0, 11)
    if t == 0: return rng.choice((0, 1 << 63, 0x7ff0000000000000, 0xfff0000000000000, 0x7ff8000000000000, 0x7ff0000000000001, 1, (1 << 63) | 1, 0x000fffffffffffff, 0x0010000000000000))
    s = rng.getrandbits(1) << 63
    if t == 1: e = rng.randint(0, 2046)               # any exponent
    elif t == 2: e = rng.choice((0, 1, 2046, 2047))
    else: e = 1023 + rng.randint(-130, 130)           # the posit range (|scale| <= 120) and a margin
    mm = rng.randint(0, 9)
    if mm == 0: m = 0
    elif mm == 1: m = (1 << 52) - 1
    elif mm == 2: m = 1 << rng.randrange(52)
    elif mm == 3: m = (1 << rng.randrange(52)) | (1 << rng.randrange(52))
    elif mm == 4: m = ((1 << 52) - 1) ^ (1 << rng.randrange(52))
    elif mm == 5: m = (rng.getrandbits(52) >> rng.randrange(52)) << rng.randrange(40)   # few significant bits: ties
    elif mm == 6: m = (1 << rng.randrange(52)) | rng.choice((1, 2, 0x100, 0x1000))     # tie + tiny sticky
    else: m = rng.getrandbits(52)
    return s | (e << 52) | (m & ((1 << 52) - 1))

def f32_bits(rng):
    t = rng.randint(0, 11)
    if t == 0: return rng.choice((0, 1 << 31, 0x7f800000, 0xff800000, 0x7fc00000, 0x7f800001, 1, 0x80000001, 0x007fffff, 0x00800000))
    s = rng.getrandbits(1) << 31
    if t == 1: e = rng.randint(0, 254)
    elif t == 2: e = rng.choice((0, 1, 254, 255))
    else: e = max(0, min(254, 127 + rng.randint(-126, 127)))
    mm = rng.randint(0, 8)
    if mm == 0: m = 0
    elif mm == 1: m = (1 << 23) - 1
    elif mm == 2: m = 1 << rng.randrange(23)
    elif mm == 3: m = (1 << rng.randrange(23)) | (1 << rng.randrange(23))
    elif mm == 4: m = (rng.getrandbits(23) >> rng.randrange(23)) << rng.randrange(16)
    elif mm == 5: m = (1 << rng.randrange(23)) | rng.choice((1, 2, 8))
    else: m = rng.getrandbits(23)
    return s | (e << 23) | (m & ((1 << 23) - 1))

def int_bits(w, rng):
    """w-bit integer patterns: powers of two ± small, extremes, rounding ties k·2^j + 2^(j-1), random of random length"""
    mask = (1 << w) - 1
    t = rng.randint(0, 9)
    if t == 0: return rng.choice((0, 1, mask, 1 << (w - 1), (1 << (w - 1)) - 1, (1 << (w - 1)) + 1, 2, 3, mask - 1)) & mask
    if t == 1: return ((1 << rng.randrange(w)) + rng.choice((0, 1, -1, 2, -2))) & mask
    if t == 2: return (-((1 << rng.randrange(w)) + rng.choice((0, 1, -1, 2, -2)))) & mask
    if t in (3, 4):
        j = rng.randrange(1, w); k = rng.getrandbits(min(30, w - j) or 1)
        v = (k << j) + (1 << (j - 1)) + rng.choice((0, 0, 1, -1))
        return (v if t == 3 else -v) & mask
    if t == 5:
        return (mask >> rng.randrange(w)) - rng.choice((0, 1, 2, 0x400, 0x401)) & mask
    L = rng.randint(1, w)
    v = rng.getrandbits(L)
    return (v if rng.getrandbits(1) else -v) & mask

def arg_of(kind, n, rng, TYPES):
    if kind == 'P': return anyp(n, rng)
    if kind in TYPES: return anyp(TYPES[kind]['n'], rng)
    if kind == 'f64': return f64_bits(rng)
    if kind == 'f32': return f32_bits(rng)
    if kind == 'bool': return rng.getrandbits(1)
    w = {'i8': 8, 'i16': 16, 'i32': 32, 'i64': 64, 'isize': 64, 'u8': 8, 'u16': 16, 'u32': 32, 'u64': 64, 'usize': 64}[kind]
    return int_bits(w, rng)


_CACHE = {}
def float_boundaries(n, kind, rng, nties):
    """cached wrapper (the boundary set is deterministic: its own fixed-seed generator)"""
    key = ('fb', n, kind, nties)
    if key not in _CACHE:
        import random as _r
        _CACHE[key] = list(_float_boundaries(n, kind, _r.Random(7700 + n), nties))
    return _CACHE[key]

def _float_boundaries(n, kind, rng, nties):
    """from_f32 / from_f64 into an n-bit posit: every (or `nties` sampled) rounding boundary of the TARGET expressed as a float:
    the tie, its float neighbours, and the tie with one extra mantissa bit set / cleared at every position; both signs"""
    import struct, sys, os
    sys.path.insert(0, os.path.join(os.path.dirname(os.path.dirname(os.path.abspath(__file__))), 'tools'))
    from pyspec import to_rat
    es = _ES[n]
    pts = list(range(1 << (n - 1))) if n <= 8 else sorted(set(interesting_posits(n, rng, nties)) | set(range(0, 8)) | set(range((1 << (n - 1)) - 8, 1 << (n - 1))))
    mb, w = (52, 64) if kind == 'f64' else (23, 32)
    for p in pts:
        p &= (1 << (n - 1)) - 1
        v = to_rat(n + 1, es, ((p << 1) | 1) & ((1 << (n + 1)) - 1))
        if v is None or v <= 0: continue
        try:
            x = float(v)
            if kind == 'f64': b = struct.unpack('<Q', struct.pack('<d', x))[0]
            else: b = struct.unpack('<I', struct.pack('<f', x))[0]
        except OverflowError:
            continue
        S = 1 << (w - 1)
        for d in (0, 1, -1):
            yield ((b + d) & (S - 1),); yield (((b + d) & (S - 1)) | S,)
        for j in range(mb):
            for q in (b | (1 << j), b + (1 << j), b - (1 << j)):
                if 0 < q < S:
                    yield (q,); yield (q | S,)

def target_boundaries(n, op, rng):
    """cached wrapper (deterministic per class of operation)"""
    import re as _re
    lo = op.lower()
    key = ('tb', n, 'f32' in lo, bool(_re.search(r'to_([iu])(8|16|32|64|size)|^([iu])(8|16|32|64|size)::from', lo) or 'round' in lo or 'ceil' in lo or 'floor' in lo or 'trunc' in lo))
    if key not in _CACHE:
        import random as _r
        _CACHE[key] = list(_target_boundaries(n, op, _r.Random(8800 + n)))
    return _CACHE[key]

def _target_boundaries(n, op, rng):
    """conversions out of a wide posit: rounding boundaries of the *target* format expressed as source patterns"""
    # conversions out of a wide posit: every kind of rounding boundary of the *target* format expressed as source patterns
    import sys, os, re as _re
    sys.path.insert(0, os.path.join(os.path.dirname(os.path.dirname(os.path.abspath(__file__))), 'tools'))
    from pyspec import rnd
    from fractions import Fraction as Fr
    M = (1 << n) - 1
    lo = op.lower()
    if 'f32' in lo:
        # midpoints between adjacent f32 values (23-bit mantissa m, scale e) where the source still has > 24 significant bits,
        # with mantissas chosen to make the round-up carry ripple (all ones, trailing ones) — and their neighbours
        for e in range(-20, 21):
            ms = [0, 1, (1 << 23) - 1, (1 << 23) - 2, (1 << 22), (1 << 22) - 1, 0x555555, 0x2aaaaa] + [rng.getrandbits(23) for _ in range(6)] \
                 + [((1 << 23) - 1) ^ ((1 << rng.randrange(23)) - 1) for _ in range(4)] + [(1 << rng.randrange(1, 23)) - 1 for _ in range(4)]
            for m in ms:
                v = (Fr(1) + Fr(2 * m + 1, 1 << 24)) * (Fr(2) ** e)
                p = rnd(n, _ES[n], v)
                for sgn in (1, -1):
                    for d in (0, 1, -1, 2, -2, 7, -7, 8, -8):
                        yield ((sgn * (p + d)) & M,)
    mi = _re.search(r'to_([iu])(8|16|32|64|size)|^([iu])(8|16|32|64|size)::from', lo)
    if mi or 'round' in lo or 'ceil' in lo or 'floor' in lo or 'trunc' in lo:
        ks = list(range(0, 20)) + [(1 << j) + d for j in range(4, 66) for d in (-2, -1, 0, 1)] + [rng.getrandbits(rng.randrange(5, 30)) for _ in range(200)]
        for k in ks:
            for fr in (Fr(1, 2), Fr(0), Fr(1, 4), Fr(3, 4)):
                p = rnd(n, _ES[n], Fr(k) + fr)
                for sgn in (1, -1):
                    for d in (0, 1, -1):
                        yield ((sgn * (p + d)) & M,)

def narrowing_sources(src, tgt, es_s=None, es_t=None, npts=700):
    """posit -> narrower posit: every (tgt <= 8) or `npts` sampled rounding boundaries of the target expressed in the source format:
    the tie, its +-1 neighbours, and the tie +- ONE bit at every lower position (a sticky mask that misses a position), both signs.
    Formats are (bits, es); es defaults to the standard one of the width.  Deterministic (own fixed-seed generator), cached."""
    es_s = _ES[src] if es_s is None else es_s
    es_t = _ES[tgt] if es_t is None else es_t
    key = ('nb', src, es_s, tgt, es_t, npts)
    if key in _CACHE: return _CACHE[key]
    import sys, os, random as _r
    sys.path.insert(0, os.path.join(os.path.dirname(os.path.dirname(os.path.abspath(__file__))), 'tools'))
    from pyspec import to_rat, rnd
    if tgt <= 8: pts = list(range(1 << tgt))
    elif tgt <= 3: pts = list(range(1 << tgt))
    else: pts = interesting_posits(tgt, _r.Random(9900 + src + tgt), npts)
    out = []; M = (1 << src) - 1
    for p in pts:
        v = to_rat(tgt + 1, es_t, ((p << 1) | 1) & ((1 << (tgt + 1)) - 1))     # the tie between p and its successor
        if v is None: continue
        mid = rnd(src, es_s, v)
        for d in (0, 1, -1): out.append(((mid + d) & M,))
        for j in range(1, src - 1):
            for q in (mid + (1 << j), mid - (1 << j)):
                if 0 < q < (1 << (src - 1)):
                    out.append((q,)); out.append(((-q) & M,))
    _CACHE[key] = out
    return out

def ulpscale_pairs(n, es, rng, count):
    """operand pairs for + and -: a structured A (powers of two, all-ones fractions, random) and a B whose magnitude is a simple
    multiple (1/8 .. 2, and 1/2 +- a sliver) of the spacing of the posits next to A, above AND below — where the alignment shift of
    the smaller operand ends at the guard / sticky position of the larger (early-out thresholds, lost borrow, lost sticky bit).
    Patterns are n-bit (caller left-aligns for generic widths)."""
    import sys, os
    sys.path.insert(0, os.path.join(os.path.dirname(os.path.dirname(os.path.abspath(__file__))), 'tools'))
    from pyspec import to_rat, rnd
    from fractions import Fraction as Fr
    M = (1 << n) - 1; half = 1 << (n - 1)
    out = []
    mults = [Fr(1, 8), Fr(1, 4), Fr(3, 8), Fr(1, 2), Fr(5, 8), Fr(3, 4), Fr(1), Fr(3, 2), Fr(2), Fr(1, 2) + Fr(1, 64), Fr(1, 2) - Fr(1, 64), Fr(3, 4) + Fr(1, 128)]
    while len(out) < count:
        t = rng.randint(0, 3)
        if t == 0:                                       # exact power of two (weighted towards the centre, where fractions are longest)
            e = rng.randint(-8, 8) if rng.getrandbits(1) else rng.randint(-(n - 2) * (1 << es), (n - 2) * (1 << es))
            a = rnd(n, es, Fr(2) ** e)
        elif t == 1: a = anyp(n, rng) & (half - 1)
        else: a = structured_posit(n, rng) & (half - 1)
        a &= half - 1
        if a == 0 or a >= half - 1: continue
        va = to_rat(n, es, a)
        up = to_rat(n, es, a + 1) - va; dn = va - to_rat(n, es, a - 1) if a > 1 else up
        for u in (up, dn):
            m = rng.choice(mults)
            b = rnd(n, es, u * m)
            if b == 0: continue
            b = (b + rng.choice((0, 0, 1, -1))) & (half - 1) or 1
            sa = rng.getrandbits(1); sb = rng.getrandbits(1)
            A = (-a) & M if sa else a; B = (-b) & M if sb else b
            out.append((A, B) if rng.getrandbits(1) else (B, A))
    return out[:count]

def neartie_sqrt(n, es, rng, count):
    """inputs x whose exact square root lies next to a rounding boundary of the n-bit posit: x = (midpoint of two adjacent
    posits z, z+1)^2 rounded to the format, and its neighbours.  A small error anywhere in the root computation (table entry,
    truncated Newton step, remainder correction) flips the rounding of exactly these inputs.  z is drawn with uniform
    significands at small scales (where fractions are longest) and structured otherwise."""
    import sys, os
    sys.path.insert(0, os.path.join(os.path.dirname(os.path.dirname(os.path.abspath(__file__))), 'tools'))
    from pyspec import to_rat, rnd
    half = 1 << (n - 1)
    out = []
    while len(out) < count:
        t = rng.randint(0, 3)
        if t <= 1:
            e = rng.randint(-6, 6)
            z = rnd(n, es, (1 + __import__('fractions').Fraction(rng.getrandbits(40), 1 << 40)) * __import__('fractions').Fraction(2) ** e)
        elif t == 2: z = anyp(n, rng) & (half - 1)
        else: z = structured_posit(n, rng) & (half - 1)
        if z == 0 or z >= half - 1: continue
        mid = (to_rat(n, es, z) + to_rat(n, es, z + 1)) / 2
        x0 = rnd(n, es, mid * mid)
        for d in (0, 1, -1, 2, -2):
            x = x0 + d
            if 0 < x < half: out.append((x,))
    return out[:count]

def cases_for(ty, n, args, count, rng, TYPES, exhaustive_limit=1 << 16, op=''):
    """yield argument tuples for an op with the given arg kinds"""
    args = list(args)
    if len(args) == 1 and (args[0] in TYPES or args[0] == 'P') and op:
        # narrowing conversions: every rounding boundary of the target format, expressed in the source format
        # (an (m+1)-bit posit pattern left-aligned in the source) and its neighbours
        src = TYPES[args[0]]['n'] if args[0] in TYPES else n
        import re as _re
        mt = _re.search(r'p(8|16|32)', op) if ('to_p' in op or 'from_p' in op or '_to_px' in op or '_from_px' in op) else None
        tgt = int(mt.group(1)) if mt else None
        if args[0] == 'P' and mt and 'from_p' in op: tgt = None
        if args[0] in TYPES and ('from_' in op): tgt = n
        if tgt and tgt < src:
            import sys, os
            sys.path.insert(0, os.path.join(os.path.dirname(os.path.dirname(os.path.abspath(__file__))), 'tools'))
            from pyspec import to_rat, rnd
            for t_ in narrowing_sources(src, tgt): yield t_
    if all(k == 'P' for k in args):
        if n ** 0 and (1 << (n * len(args))) <= exhaustive_limit:
            N = 1 << n
            if len(args) == 1:
                for a in range(N): yield (a,)
            elif len(args) == 2:
                for a in range(N):
                    for b in range(N): yield (a, b)
            return
        if len(args) == 1:
            if n > 16 and op:
                for t in target_boundaries(n, op, rng): yield t
            if n > 16 and 'sqrt' in op.lower():
                for t in neartie_sqrt(n, _ES[n], rng, min(3 * count, 120000)): yield t
            for a in interesting_posits(n, rng, count): yield (a,)
            return
        if len(args) == 2:
            S = interesting_posits(n, rng, 0)
            k = 0
            for a in special_posits(n):
                for b in S:
                    yield (a, b); yield (b, a); k += 2
            kind = next((kk for kk in ('add', 'sub', 'mul', 'div') if op.lower().startswith(kk) or op == 'recip'), None)
            if kind and n > 8:
                for _ in range(min(count // 3, 15000)):
                    yield neartie_pair(n, kind, rng); k += 1
            if kind in ('add', 'sub') and n > 8:
                for pr in ulpscale_pairs(n, _ES[n], rng, min(count // 4, 12000)):
                    yield pr; k += 1
            while k < count:
                yield related_pair(n, rng); k += 1
            return
        if len(args) == 3:
            S = special_posits(n)[:8]
            k = 0
            for a in S:
                for b in S:
                    for c in S: yield (a, b, c); k += 1
            nt = min(count // 4, 20000) if n > 8 else 0
            for _ in range(nt):
                yield neartie_triple(n, rng); k += 1
                yield halfulp_triple(n, rng); k += 1
            while k < count:
                yield triple(n, rng); k += 1
            return
    if len(args) == 1 and args[0] in TYPES:
        w = TYPES[args[0]]['n']
        if (1 << w) <= exhaustive_limit:
            for a in range(1 << w): yield (a,)
        else:
            for a in interesting_posits(w, rng, count): yield (a,)
        return
    if len(args) == 1 and args[0] in ('i8', 'u8', 'i16', 'u16'):
        w = 8 if args[0] in ('i8', 'u8') else 16
        for a in range(1 << w): yield (a,)
        return
    if len(args) == 1 and args[0] in ('f64', 'f32') and n in _ES:
        for t in float_boundaries(n, args[0], rng, 120): yield t
    for _ in range(count):
        yield tuple(arg_of(k, n, rng, TYPES) for k in args)
