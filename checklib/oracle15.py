#!/usr/bin/env python3-vt
"""Oracle for C15 (P32E2 elementary functions): reads `p32 <fn> a [b] => res` lines, computes the correctly rounded result with
mpmath (400 bits, exact-rational posit rounding with an ambiguity guard) and prints, for every line whose encoding distance
to the correctly rounded result exceeds the crate's stated bound, `ULP <line> correct=<hex> ulp=<d> bound=<b>`; last line
`SUMMARY15 n=<cases> over=<violations> maxulp=<per-function map>`.  Runs as a filter: stdin -> stdout."""
import sys, os
from fractions import Fraction as Fr
sys.path.insert(0, os.path.join(os.path.dirname(os.path.dirname(os.path.abspath(__file__))), 'tools'))
from pyspec import to_rat, rnd
import mpmath
mpmath.mp.prec = 400
N, ES = 32, 2
NAR = 1 << 31
BOUND = {'exp': 1, 'exp2': 1, 'sin': 2, 'cos': 2, 'acos': 2, 'ln': 2, 'cosh': 2, 'tan': 3, 'asin': 3, 'atan': 3, 'atan2': 3, 'log2': 3,
         'cbrt': 4, 'hypot': 4, 'sinh': 4, 'powf': 5}

def mp2fr(x):
    x = mpmath.mpf(x)
    if x == 0: return Fr(0)
    s, m, e, _ = x._mpf_
    v = Fr(int(m)) * (Fr(2) ** int(e))
    return -v if s else v
def frmp(q): return mpmath.mpf(q.numerator) / mpmath.mpf(q.denominator)
def R(y):
    q = mp2fr(y)
    eps = abs(q) * Fr(1, 1 << 300)
    a = rnd(N, ES, q - eps); b = rnd(N, ES, q + eps)
    if a != b: return None
    return a
def sint(x): return x - (1 << 32) if x >> 31 else x
def absbits(x): return x if x < NAR else (1 << 32) - x

def in_domain(fn, a, b):
    """the documented / tested domain of each function (patterns), per the crate's own ULP tests"""
    if a == NAR or (b is not None and b == NAR): return True     # NaR in -> NaR out is part of the property
    if fn in ('sin', 'cos', 'tan'): return absbits(a) < 0x7d400000
    if fn in ('exp',): return absbits(a) <= 0x6a800000
    if fn == 'exp2': return -0x6cb00000 <= sint(a) < 0x6c000000     # [-150, 128): 2^128 is beyond maxpos and the crate returns NaR there
    if fn in ('sinh', 'cosh'): return absbits(a) <= 0x69800000
    if fn == 'powf':
        # every real pair whose result neither overflows nor underflows: |y * ln|x|| <= 80 (the crate computes exp(y*ln|x|) with
        # its unguarded kernel; beyond exp's own documented range |t| <= 104 the result is unspecified, as for exp itself).
        # Negative bases with integer exponents are in the domain (pow has explicit sign logic for them).
        va = to_rat(N, ES, a); vb = to_rat(N, ES, b)
        if va is None or vb is None or va == 0 or vb == 0: return True
        t = abs(float(vb) * float(mpmath.log(abs(frmp(va)))))
        return t <= 80.0
    return True

def bound_for(fn, a, b):
    """the crate's stated bound; for powf it is stated (and tested by the crate) on [0.5, 5) x [0.5, 5) only.  Outside, the error of
    exp(y*ln|x|) is amplified (up to 63 encodings measured on the unchanged tree for x = 1 +- tiny, |y| ~ 2^22; inherent to the
    method), so only GROSS correctness is demanded there: within 4096 encodings of the correctly rounded result, which still
    catches a wrong sign, a wrong NaR decision or a broken special case (all 2^20+ encodings away)."""
    if fn != 'powf': return BOUND[fn]
    if 0x38000000 <= sint(a) <= 0x52000000 and 0x38000000 <= sint(b) <= 0x52000000: return BOUND[fn]
    return 4096

def correct(fn, a, b):
    va = to_rat(N, ES, a); vb = to_rat(N, ES, b) if b is not None else None
    if va is None or (b is not None and vb is None): return NAR
    x = frmp(va); y = frmp(vb) if vb is not None else None
    E = lambda q: rnd(N, ES, Fr(q))
    if fn == 'sin': return E(0) if va == 0 else R(mpmath.sin(x))
    if fn == 'cos': return E(1) if va == 0 else R(mpmath.cos(x))
    if fn == 'tan': return E(0) if va == 0 else R(mpmath.tan(x))
    if fn == 'asin':
        if abs(va) > 1: return NAR
        return E(0) if va == 0 else R(mpmath.asin(x))
    if fn == 'acos':
        if abs(va) > 1: return NAR
        return E(0) if va == 1 else R(mpmath.acos(x))
    if fn == 'atan': return E(0) if va == 0 else R(mpmath.atan(x))
    if fn == 'atan2':
        if va == 0 and vb == 0: return None
        if va == 0 and vb > 0: return E(0)
        return R(mpmath.atan2(x, y))
    if fn == 'ln':
        if va <= 0: return NAR
        return E(0) if va == 1 else R(mpmath.log(x))
    if fn == 'log2':
        if va <= 0: return NAR
        if va.numerator & (va.numerator - 1) == 0 and va.denominator & (va.denominator - 1) == 0:
            return E(va.numerator.bit_length() - va.denominator.bit_length())
        return R(mpmath.log(x, 2))
    if fn == 'exp': return E(1) if va == 0 else R(mpmath.exp(x))
    if fn == 'exp2':
        if va.denominator == 1: return E(Fr(2) ** int(va)) if abs(va) < 200 else R(mpmath.power(2, x))
        return R(mpmath.power(2, x))
    if fn == 'sinh': return E(0) if va == 0 else R(mpmath.sinh(x))
    if fn == 'cosh': return E(1) if va == 0 else R(mpmath.cosh(x))
    if fn == 'cbrt':
        if va == 0: return E(0)
        r = mpmath.cbrt(abs(x)); r = -r if va < 0 else r
        q = mp2fr(r)
        # exact cubes
        return R(r)
    if fn == 'hypot':
        if va == 0 and vb == 0: return E(0)
        s = va * va + vb * vb
        return R(mpmath.sqrt(frmp(s)))
    if fn == 'powf':
        if vb == 0 or va == 1: return E(1)
        if va == 0: return E(0) if vb > 0 else NAR
        if va < 0 and vb.denominator != 1: return NAR
        m = R(mpmath.exp(mpmath.log(abs(x)) * y))
        if m is None: return None
        if va < 0 and vb.numerator % 2 == 1: return (-m) & 0xffffffff
        return m
    return None

def main():
    n = 0; over = 0; mx = {}
    for line in sys.stdin:
        l = line.strip()
        if ' => ' not in l: continue
        lhs, res = l.split(' => ', 1)
        ws = lhs.split()
        if len(ws) < 3 or ws[0] != 'p32' or ws[1] not in BOUND: continue
        fn = ws[1]; a = int(ws[2], 16); b = int(ws[3], 16) if len(ws) > 3 else None
        if not in_domain(fn, a, b): continue
        try:
            c = correct(fn, a, b)
        except Exception as e:
            c = None
        if c is None: continue
        n += 1
        bd = bound_for(fn, a, b)
        if res in ('PANIC', 'TIMEOUT'):
            over += 1; print('ULP %s correct=%x ulp=inf bound=%d' % (l, c, bd)); continue
        r = int(res, 16)
        if c == NAR or r == NAR:
            d = 0 if c == r else 1 << 40
        else:
            d = abs(sint(r) - sint(c))
        mx[fn] = max(mx.get(fn, 0), d if d < (1 << 40) else -1)
        if d > bd:
            over += 1; print('ULP %s correct=%x ulp=%s bound=%d' % (l, c, d if d < (1 << 40) else 'nar-mismatch', bd))
    print('SUMMARY15 n=%d over=%d maxulp=%s' % (n, over, ' '.join('%s:%d' % kv for kv in sorted(mx.items()))))
if __name__ == '__main__':
    main()
