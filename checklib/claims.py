"""What MANIFEST.json claims per property (level text, trusted base, deciding technique)."""
TB = ('Lean 4.33 kernel; axioms propext/Classical.choice/Quot.sound plus one native_decide axiom per exhaustive-sweep theorem '
      '(listed in the evidence); translator thir2lean.py + Rs primitive table, validated on every run by the model-vs-implementation '
      'correspondence (both build profiles); Spec (lean/Spec) as the meaning of the posit rule.')
def C(text, technique, note=TB, **kw):
    d = dict(text=text, technique=technique, note=note); d.update(kw); return d
CLAIMS = {
 'C01': C('Theorems about the Lean model regenerated from the source: P8E0 add/sub/mul/div equal Spec for ALL 2^16 pairs (native_decide sweep lifted to a forall), '
          'operator-trait spellings forward to the const methods (rfl-style). P16E1/P32E2 operand pairs are covered by the model-vs-impl correspondence and the '
          'Spec-vs-impl oracle on structured inputs (partial: no all-pairs theorem yet for the wider types).',
          'Lean 4 theorems on THIR-generated model (native_decide exhaustive + forwarding lemmas) + differential correspondence'),
}

_FIN = ('Theorems about the Lean model regenerated from the source on every run. Finite operand spaces are settled completely: '
        'for every operation of this property whose whole operand space has <= 2^16 elements (all P8E0 unary/binary, all P16E1 unary, 8/16-bit integer sources) '
        'there is a theorem `forall inputs, model returns normally the bit pattern Spec requires` (native_decide sweep lifted by a kernel-checked lemma). ')
_WIDE = ('Wider operand spaces (P16E1 pairs, P32E2, 32/64-bit sources) are PARTIAL: covered by the model-vs-implementation correspondence and the '
         'Spec-vs-implementation oracle on structured + random inputs in both build profiles, not yet by a theorem.')
CLAIMS.update({
 'C02': C('GEN theorems (no enumeration, no native axiom) on the generated model for whole classes of floats, all three formats, f32 and f64: '
          '+-0 -> 0, NaN/inf -> NaR, finite |x| >= maxpos -> +-maxpos, 0 < |x| <= minpos -> +-minpos (thresholds derived from (n, es), not from the code), and From<f32>/From<f64> = from_f32/from_f64. '
          'PARTIAL: the in-range rounding (the convert_float! datapath) is covered by correspondence + oracle on structured floats (every exponent in the posit range, ties, tie+sticky, subnormals), not by a theorem.',
          'Lean 4 symbolic proofs (unfold/simp) on THIR-generated model + differential correspondence'),
 'C03': C(_FIN + 'Here: to_f64/to_f32 and the From<P> for f32/f64 spellings for all P8E0 and P16E1 patterns equal the IEEE encoding of the exact value. ' + _WIDE +
          ' The Display/FromStr text leg goes through core::fmt / f64::from_str, which are not modelled (std contract assumed).',
          'Lean 4 native_decide exhaustive theorems on THIR-generated model + differential correspondence'),
 'C04': C('Theorems on the generated model: one += / -= step from the cleared quire holds exactly +-a*b (all 2^16 P8E0 pairs) resp. +-a (all P8E0, all P16E1 patterns), NaR operands give NaR, '
          'to_posit after one product is the product rounded once; the tuple/method spellings equal the fdp call for EVERY quire state (symbolic). '
          'PARTIAL: the step from an arbitrary state and the unbounded-history induction are not yet theorems; histories (mixed signs, exact cancellations, terms living in one limb, NaR injection, '
          'permutations, all spellings) are checked by correspondence and against the exact-rational Spec fold. Q32E2 fdp/fdp_one/to_posit are hand models pinned to the Rust source hash.',
          'Lean 4 theorems (native_decide sweeps + simp forwarding) on generated model + history correspondence against exact rational fold'),
 'C05': C('Theorem for P8E0: mul_add, mul_sub and sub_product equal the single rounding of the exact a*b+-c for ALL 2^24 operand triples (16 native_decide shards per operation, recombined by a kernel-checked lemma). '
          'PARTIAL for P16E1/P32E2 (2^48 / 2^96 triples): correspondence + oracle on structured triples incl. near-cancellation and saturation.',
          'Lean 4 sharded native_decide exhaustive theorems on generated model + differential correspondence'),
 'C06': C(_FIN + 'Here: sqrt for all P8E0 and all P16E1 patterns equals the posit rounding of the exact square root (Spec.sqrt: 160-bit integer square root + inexact flag). ' + _WIDE,
          'Lean 4 native_decide exhaustive theorems on generated model + differential correspondence'),
 'C07': C(_FIN + 'Here: to_i32/to_u32/to_i64/to_u64 for all P8E0/P16E1 patterns, from_i8/u8/i16/u16 and their From spellings for all three formats. ' + _WIDE,
          'Lean 4 native_decide exhaustive theorems on generated model + differential correspondence'),
 'C08': C(_FIN + 'Here: the four conversions with P8E0 or P16E1 source (From impl, to_* and from_* spellings). PARTIAL: P32E2 sources (2^32) by correspondence + oracle.',
          'Lean 4 native_decide exhaustive theorems on generated model + differential correspondence'),
 'C09': C(_FIN + 'Here: round/floor/ceil/trunc/fract for all P8E0 and P16E1 patterns. PARTIAL: P32E2 (2^32 inputs) by correspondence + oracle.',
          'Lean 4 native_decide exhaustive theorems on generated model + differential correspondence'),
 'C10': C(_FIN + 'Here: every comparison, min/max, abs, signum, copysign, neg and classification predicate for all P8E0 pairs and all P16E1 unary inputs against the signed-integer order of the patterns. ' + _WIDE +
          ' PxE1/PxE2 comparison wrappers: not yet claimed by a theorem.',
          'Lean 4 native_decide exhaustive theorems on generated model + differential correspondence'),
 'C12': C('Theorems: to_posit(from_posit p) = p for every P8E0 and P16E1 pattern; neg is twos-complement negation of the whole accumulator for EVERY Q8E0/Q16E1 state; clear gives zero from every state. '
          'PARTIAL: Q32E2 (hand model for fdp/to_posit) and the residual split into_two/three_posits are checked on reachable states by correspondence against the exact-rational Spec.',
          'Lean 4 theorems (native_decide + symbolic) on generated model + history correspondence'),
 'C17': C(_FIN + 'Here: the num_traits Signed/Zero/One/Float spellings and the op-assign forms, each against the Spec of the inherent operation, for the finite spaces. ' + _WIDE +
          ' NumCast::from<N> and from_str_radix are not modelled (foreign generics / parsing).',
          'Lean 4 native_decide exhaustive theorems on generated model + differential correspondence'),
})
CLAIMS['C01']['text'] = _FIN + 'Here: add/sub/mul/div (operator trait, const method and recip spellings) for all 2^16 P8E0 pairs. ' + _WIDE

CLAIMS.update({
 'C11': C('Theorems: for each of the ten P16E1 functions and the two P8E0 functions, the generated model returns, for EVERY input pattern (all 2^16 / 2^8, native_decide sweep), '
          'exactly the entry of a committed reference table. The tables are an ORACLE, not a theorem about the real functions: computed by tools/mktables.py with mpmath at 400 bits and '
          'exact-rational posit rounding, accepting a value only if f(x)(1 +- 2^-300) round alike (symbolically exact cases handled exactly); the implementation is also compared with the '
          'table on all inputs in both build profiles on every run. PARTIAL: "table = correctly rounded real function" rests on that oracle (no Lean interval-arithmetic certificate yet).',
          'Lean 4 native_decide exhaustive theorems (model = reference table) + mpmath oracle tables + exhaustive implementation comparison',
          note=TB + ' mpmath (python3-vt) as the oracle for the real-valued functions.'),
 'C18': C('Theorem: P8E0 x.poly1(&[c0,c1]) equals the single rounding of the exact c0*x + c1 for ALL 2^24 (x, c0, c1) (16 native_decide shards). Together with C04.q8_history (every Q8E0 accumulation history is exact) '
          'the P8E0 stages reduce to to_posit of the exact sum. PARTIAL: degrees 2..18, poly3a/poly4a and P16E1/P32E2 are covered by correspondence and the oracle Spec.poly '
          '(exact rational fused dot products composed in the documented stages) on structured inputs incl. cancellation and NaR/zero coefficients.',
          'Lean 4 sharded native_decide theorem + history induction (C04) + differential correspondence against exact-rational staged dot products'),
 'C19': C('Theorems on the generated model with every rng.gen_range(lo..hi) turned into an input guarded by its contract: P8E0 all 256 inputs, P16E1 all 2^18 draws (sub_one terminates, result pattern < 1.0), '
          'P32E2 all 2^27 x 4 draws (16 native_decide shards for from_bits(s) - ONE, plus a kernel-checked bit-level lemma that XOR with a 2-bit value stays below 2^30): every sample is a real posit in [0,1) and no call traps. '
          'The private helper sub_one is compared with the code on all 2^18 inputs through the --cfg softposit_verif hook; sampling through StdRng and replayed edge streams is checked against the range predicate.',
          'Lean 4 native_decide exhaustive theorems + symbolic XOR lemma on generated model + hook-based exhaustive correspondence',
          note=TB + ' rand 0.8 contract assumed: gen_range(lo..hi) returns a value in [lo, hi).'),
})
CLAIMS['C04']['text'] = ('Theorems on the generated model, Q8E0: fdp / fdp_one are factored symbolically (all 2^32 states) into q -> norm(q + delta) with delta independent of the accumulator; delta equals the exact +-a*b '
    '(+-a) for all operand pairs (native_decide); wrap-around addition is exact inside the quire range (omega); INDUCTION over the operation list gives C04.q8_history: after ANY finite sequence of +=/-= of products and single posits '
    'from the cleared quire whose exact partial sums stay in range, the accumulator holds exactly the sum; NaR is absorbing and sticky (q8_nar_sticky, q8_nar_operand); the tuple/method spellings equal the fdp call for every state. '
    'Also: one-step-from-zero sweeps for Q8E0 (pairs) and Q16E1 (single posits), to_posit after one product = the product rounded once. '
    'PARTIAL: Q16E1 history and to_posit on arbitrary states, and Q32E2 (fdp/fdp_one/to_posit are hand models pinned to the Rust source hash) are covered by the history correspondence against the exact-rational Spec fold '
    '(mixed signs, exact cancellations, terms living in one limb, NaR injection, permutations, all spellings).')
CLAIMS['C04']['technique'] = 'Lean 4 symbolic factorisation + native_decide per-operand sweeps + induction over histories on generated model; history correspondence against exact rational fold'

CLAIMS.update({
 'C15': C('PARTIAL by nature. Proved on the generated model (symbolic, every input of the class): ln/log2 return NaR for every d <= 0 (zero, negatives, NaR); atan2 and powf return NaR whenever either argument is NaR; '
          'sin, cos, tan, exp, exp2 return NaR for NaR; closed evaluations for asin, acos, atan, sinh, cosh, cbrt, hypot at NaR. The whole sleef module (incl. Polynom instantiations, quire-fused stages, constants computed through the model of from_f64) '
          'is in the regenerated model and tied by correspondence in both build profiles. NOT proved: the 1..5 ulp accuracy bound (a theorem would need a certified real-analysis error bound per function, and a 2^32 sweep with certified intervals is hours per function). '
          'It is explored: every recorded implementation result is recomputed by an mpmath oracle (400 bits, ambiguity-guarded posit rounding) and the encoding distance compared with the crate\'s stated bound, on inputs concentrated at argument-reduction boundaries '
          '(multiples of pi/2 within +-3 ulp up to 2.5e5, powers of two, domain ends), the crate\'s own test ranges, and structured/random patterns.',
          'Lean 4 symbolic guard theorems on generated model + correspondence + mpmath-oracle search for ULP-bound violations (exploration for the numeric bound)',
          note=TB + ' mpmath (python3-vt) as the oracle for the real-valued functions; domains as documented by the crate (|x| < 393216 for sin/cos/tan, |x| <= 104 for exp, [-150,128) for exp2, |x| <= 88 for sinh/cosh, [0.5, 6] for powf).'),
 'C16': C('Every exhaustive theorem of C01..C11, C17, C19 and the Q8E0 history theorem has the form "model returns .ok v": the generated model carries rustc\'s debug-profile overflow / shift / index / division checks and fuel-bounded loops, '
          'so .ok v is simultaneously "no panic, no arithmetic or shift overflow, no out-of-bounds index, terminates" and (because a checked operation returns the wrapped value when it does not trap) "the optimised build returns the same bits". '
          'These theorems are re-audited here as C16 obligations (all finite operand spaces: P8E0 unary/binary/ternary-fma, P16E1 unary, 8/16-bit integer sources, sampling, Q8E0 histories of any length). '
          'PARTIAL: wider operand spaces, P32E2 elementary functions, polynomials, Q16E1/Q32E2 and the generic-width types are explored: every public operation is run in a dev (overflow-checked) and a release build on the structured streams of all properties; '
          'any panic, timeout (watchdog) or bit difference between the two builds is a violation. Excluded by the property\'s own wording: clamp with min > max (asserted precondition), sin/cos/tan for |x| >= 393216 (explicit todo!()).',
          'Lean 4 exhaustive .ok-theorems on checked-arithmetic model + two-profile differential run with panic/timeout detection'),
})

CLAIMS.update({
 'C13': C('The generated model takes the width N as an argument, so one definition serves every width. Theorems (native_decide, complete operand spaces): PxE2<N> +, -, *, / for every N in 2..=8 and all pairs of N-bit operands; '
          'sqrt and round for every N in 2..=12 and all inputs; mul_add, mul_sub, sub_product for N in 3..=5 and all triples: the model returns normally the exact result rounded to an N-bit es=2 posit, left-aligned (low 32-N bits zero). '
          'PARTIAL: PxE1, larger widths and the PxE2<32> = P32E2 / PxE1<16> = P16E1 agreements are covered by correspondence + oracle (all 31 widths, both exponent sizes, small widths exhaustively). '
          'Eleven genuine defects of the generic-width code were repaired (fix: commits); the remaining ones are recorded by call site in known_findings.json (PxE1 add/sub 1-ulp errors, PxE1 fused ops, width-32 shift overflows, PxE2<2> fused ops) '
          'and printed as KNOWN-FINDING; any failure at another call site / width is a VIOLATION.',
          'Lean 4 native_decide exhaustive theorems over (N, operands) for small N on width-parametric generated model + differential correspondence for all widths'),
 'C14': C('Theorems (native_decide, complete source spaces) on the width-parametric model: PxE2<N>::to_p32e2 and to_f64 exact for every N in 2..=14 and all N-bit patterns; PxE2<N>::from_p8e0 (all 256 sources) and from_p16e1 (all 65536 sources) '
          'for every N in 2..=31 equal the source value rounded to an N-bit posit, left-aligned, zero/NaR preserved. PARTIAL: the other conversions (floats, integers, PxE1, generic-to-generic) for all 31 widths are covered by correspondence + oracle; '
          'generic-to-generic (M,N) pairs and From<&Q32E2> for PxE2 (iterator-based, not translated) are NOT covered yet. Open defects are recorded by call site in known_findings.json '
          '(from-integer conversions of PxE1 and PxE2::from_i64, float sources at N <= 3, PxE1::to_i32, width-32 widening).',
          'Lean 4 native_decide exhaustive theorems over (N, source) on width-parametric generated model + differential correspondence for all widths'),
})

CLAIMS['C10']['text'] = ('FULL for the order part of P8E0 and P16E1, symbolic for every type. (1) GEN theorems on the generated model, no enumeration, axioms propext/Quot.sound only (Props/C10Gen.lean): for P8E0, P16E1, P32E2 and EVERY operand pair '
    '(2^16 .. 2^64 pairs; 2^96 triples for clamp) lt/le/gt/ge/eq/cmp, PartialEq::eq, min, max, clamp (under its asserted precondition min <= max; it panics exactly when max < min), neg, abs, signum, is_sign_*, is_zero, is_nar/is_nan/is_finite/is_infinite '
    'are exactly the signed-integer comparison / two\'s-complement negation of the bit patterns and return one of their inputs or an exact constant; the same for the PxE1<N>/PxE2<N> comparison wrappers for every width argument N. '
    '(2) Props/C10Mono.lean: the signed-integer order of patterns IS the order of the represented reals for P8E0 and P16E1 (successor sweep over all 2^8 / 2^16 patterns by native_decide, lifted to all pairs by induction + transitivity); NaR is the bottom and has no value. '
    '(3) exhaustive Spec theorems for all P8E0 pairs / P16E1 unary (Props/C10Fin.lean). PARTIAL: monotonicity of the 32-bit formats (needs a 2^31-step sweep or the closed-form proof); copysign only on the finite spaces; classify (not translated: implementation against the specification on all P8E0/P16E1 patterns, and an exhaustive scan of all 2^32 P32E2 patterns); explored for all 31 PxE widths.')
CLAIMS['C10']['technique'] = 'Lean 4 symbolic theorems (all operand pairs, no enumeration) + successor-sweep monotonicity with inductive lift + native_decide exhaustive theorems; differential correspondence'


# ---- updates after the second half of the build round
CLAIMS['C03']['text'] = (_FIN + 'Here: to_f64/to_f32, the From<P> for f32/f64 spellings and the round trip From<f64>(f64::from(p)) = p for all P8E0 and P16E1 patterns '
    '(native_decide; in the thorough tier the P8E0 ones again by kernel evaluation only). ' + _WIDE +
    ' For P32E2 the streams contain target-format boundary sources (midpoints between adjacent f32 values with carry-rippling mantissas) and the extreme regimes; '
    'the Display/FromStr leg runs the real code (x.to_string().parse()) and is modelled as the f64 round trip (std print/parse contract assumed).')
CLAIMS['C04']['text'] += (' ADDED: Q16E1 is factored the same way for all 2^128 states (q16_fdp_factor, q16_fdp_one_factor, 128-bit wrap-around lemma); '
    'q16_step_one / q16_history_singles are unconditional (single-posit accumulations), q16_step / q16_history hold under the explicit hypothesis Delta16Prod, '
    'which C04.delta16_prod proves (product table factored into per-operand decode tables + one triangular native_decide sweep of 2^29 magnitude pairs in 128 shards + symmetry and negation lemmas), giving the unconditional C04.q16_history_all: '
    'after ANY finite history of +=/-= of products and single posits whose partial sums stay in range the Q16E1 accumulator holds exactly the sum. PARTIAL: to_posit of Q16E1 and all of Q32E2 by correspondence. C12.q8_history_rounds_partial: for Q8E0, after any history with |final sum| < 32768, to_posit is the exact sum rounded once.')
CLAIMS['C06']['text'] += (' For P32E2 every run additionally evaluates the 10^6 hardest-to-round inputs of all 2^31 positive patterns (exact integer search by a crate-independent tool in the harness: '
    'inputs whose exact root lies within 2.3e-4 ulp of a rounding boundary).')
CLAIMS['C12']['text'] = ('Theorems: to_posit(from_posit p) = p for every P8E0 and P16E1 pattern; neg is twos-complement negation of the whole accumulator for EVERY Q8E0/Q16E1 state; clear gives zero from every state; '
    'q8_to_posit_small: to_posit of EVERY Q8E0 state with |value| < 32768 (2^28 states, 128 native_decide shards) is the posit rounding of its exact value; '
    'q8_into_two / q8_into_three: for every Q8E0 state with |value| < 31982 the residual split is p1 = round(s), p2 = round(s - p1), p3 = round(s - p1 - p2) with exact subtractions (symbolic, from the step theorem and the sweep). '
    'PARTIAL: the remaining Q8E0 states (all saturate), Q16E1/Q32E2 to_posit on arbitrary states and their residual splits are checked on reachable states by the history correspondence against the exact-rational Spec.')
CLAIMS['C13']['text'] = ('The generated model takes the width N as an argument, so one definition serves every width. Theorems (native_decide, complete operand spaces): PxE2<N> and PxE1<N> +, -, *, / for every N in 2..=8 and all pairs of N-bit operands; '
    'round for every N in 2..=12 (both), sqrt N in 2..=12 (PxE2); PxE2 mul_add, mul_sub, sub_product for N in 2..=5 and all triples: the model returns normally the exact result rounded to an N-bit posit, left-aligned (low 32-N bits zero). '
    'PARTIAL: larger widths and the PxE2<32> = P32E2 / PxE1<16> = P16E1 agreements are covered by correspondence + oracle (all 31 widths, both exponent sizes, ulp-scale and tie-targeted operands). '
    'Twenty-odd genuine defects of the generic-width code were repaired (fix: commits, known_findings.json); the PxE1 fused family is an open finding by call site and printed as KNOWN-FINDING; any failure at another call site is a VIOLATION.')
CLAIMS['C14']['text'] = ('Theorems (native_decide, complete source spaces) on the width-parametric model, PxE1 and PxE2: to_p32e2 and to_f64 exact for every N in 2..=14 and all N-bit patterns; to_p8e0 and to_p16e1 (both spellings) for every N in 2..=16; '
    'from_p8e0 (all 256 sources) and from_p16e1 (all 65536 sources) for every N in 2..=32: the source value rounded to an N-bit posit, left-aligned, zero/NaR preserved. '
    'PARTIAL: float and integer sources/targets and N > 16 narrowing for all 31 widths by correspondence + oracle with target-boundary sources; Q32E2 -> PxE2<N> (From<&Q32E2>, From<Q32E2>, Quire::to_posit) after quire histories with PxE2 operands '
    'against the exact-sum oracle (hand model pinned by source hash); generic-to-generic (PxE2<N>::from_pxe1<M> / from_pxe2<M>, PxE1<N>::from_pxe2<M>, their to_* and From spellings): theorems px2_from_px1 / px1_from_px2 / px2_from_px2 (every source width 2..=13, all patterns, into EVERY target width 2..=32; native_decide) and symbolic forwarding theorems for the spellings; wider sources by correspondence for all 31 target widths x 17 source widths with target-boundary sources (one defect found and repaired, known_findings.json). Open findings by call site: from-integer conversions of PxE1, PxE2::from_i64 / from_i32.')
CLAIMS['C15']['text'] += (' ADDED: theorem C15.pi_split_close (the regenerated constants PI_A + PI_B + PI_C are within 2e-20 of Real.pi; kernel evaluation + Mathlib pi bounds); the streams contain the 3000 worst-case '
    'argument-reduction inputs (all ~250000 multiples of pi/2 scanned) and a sign-logic / special-case stream for powf outside the box [0.5,5)^2 (gross correctness only there). Open finding POWF-6ULP (5 pairs in 13.5 million at 6 ulp).')
CLAIMS['C17']['text'] = ('405 symbolic forwarding theorems (Props/C17Fwd.lean, no enumeration, axioms propext/Quot.sound): every operator trait, op-assign form, From/Into impl, EVERY method of the num_traits Float/Signed/FloatConst/Bounded/Zero/One/ToPrimitive/FromPrimitive impls (except the two todo!() bodies Float::abs_sub and integer_decode) and every Quire trait method '
    '(Q8E0, Q16E1, Q32E2 for P32E2 and for PxE2<N>) equals the inherent operation for EVERY input / quire state. ' + _FIN +
    'Here: the num_traits Signed/Zero/One/Float spellings and the op-assign forms against the Spec of the inherent operation. ' + _WIDE +
    ' A pairwise agreement stream compares spelled and inherent operations on identical inputs. NumCast::from<N> and from_str_radix are not modelled (foreign generics / parsing).')
CLAIMS['C17']['technique'] = 'Lean 4 symbolic forwarding theorems (every input) + native_decide exhaustive theorems on generated model + spelled-vs-inherent agreement run'
CLAIMS['C18']['text'] = ('FULL for P8E0: for every x and every coefficient array (all bit patterns, NaR included; up to 2^160 inputs, proved symbolically) x.poly1 .. x.poly18, poly3a and poly4a return normally Spec.poly / poly3a / poly4a: '
    'the documented staging of single-rounded exact fused dot products of the coefficients with the individually rounded powers x, x*x, x2*x, x2*x2 (Props/C18Q8.lean, C18Q8Hi.lean). '
    'Built from C18.fdp_run (accumulating ANY list of <= 7 operand pairs into a cleared Q8E0 and converting back equals Spec.fdp), which composes the all-histories theorem C04.q8_history, the to_posit sweep over 2^28 quire states and 256-case operand facts. '
    'PARTIAL: P16E1 and P32E2 (no proof of Q16E1/Q32E2 to_posit) are covered by correspondence and the oracle Spec.poly on structured inputs incl. cancellation and NaR/zero coefficients, all 20 forms.')
CLAIMS['C18']['technique'] = 'Lean 4 symbolic end-to-end theorems (history induction + native_decide read-out sweep + rational algebra, generated stage compositions) on generated model; differential correspondence against exact-rational staged dot products'

_SCAN = (' EXHAUSTIVE SEARCH on every run (a search feeding the specification, not a proof): the compiled release crate is compared with a crate-independent exact integer reference in the harness '
         '(own posit decoder/encoder, u128 arithmetic) on the WHOLE input space of %s; every disagreement becomes a case judged by Spec; on the unchanged tree there are 0 candidates (coverage.exhaustive_searches).')
CLAIMS['C01']['text'] += _SCAN % 'P16E1 + - * / (all 2^32 operand pairs)'
CLAIMS['C02']['text'] += _SCAN % 'from_f32 of P32E2, P16E1 and P8E0 (all 2^32 f32 patterns)'
CLAIMS['C03']['text'] += _SCAN % 'P32E2 to_f64 and to_f32 (all 2^32 patterns)'
CLAIMS['C06']['text'] += _SCAN % 'P32E2 sqrt (all 2^31-1 positive patterns)'
CLAIMS['C07']['text'] += _SCAN % 'P32E2 to_i32/to_u32/to_i64/to_u64/from_i32/from_u32 (all 2^32 inputs each)'
CLAIMS['C08']['text'] += _SCAN % 'P32E2 -> P16E1 and P32E2 -> P8E0 (all 2^32 sources)'
CLAIMS['C09']['text'] += _SCAN % 'P32E2 round/floor/ceil/trunc/fract (all 2^32 patterns)'

CLAIMS['C04']['text'] += (' THOROUGH TIER: C12.q8_to_posit_all (to_posit on ALL 2^32 Q8E0 states, 368 native_decide shards) and C12.q8_history_rounds: C04 for Q8E0 at full strength '
    '(any finite history with in-range partial sums: accumulator exact AND to_posit = the exact sum rounded once), no further hypothesis.')
CLAIMS['C12']['text'] += ' THOROUGH TIER: q8_to_posit_all - to_posit of EVERY one of the 2^32 Q8E0 states is the posit rounding of its exact value (NaR for the NaR image).'
CLAIMS['C12']['text'] += ' q8_into_two_all / q8_into_three_all: the residual split for every Q8E0 state with |q| <= 2146000000 (99.93 % of all states).'
