"""Per-property configuration: which operations, which input streams, which Lean modules."""
import os, json, collections, random
from . import core
from .gen_inputs import cases_for
import optable
from optable import TYPES, ops_for

RULE = ('inputs: exhaustive where the operand space is <= 2^16 (all P8E0 unary/binary, all P16E1 unary), otherwise structured '
        '(sign x regime run length x exponent x fraction patterns, neighbours, near-cancellation, ties, saturation, thresholds) '
        'plus uniform random; every random choice from random.Random(VERIF_SEED). A case is non-trivial when it has a '
        'specification value to compare with and not every posit operand is 0 or NaR; distinct = distinct input lines.')
ASSUMPTIONS = [
    'Lean 4.33 kernel; axioms propext, Classical.choice, Quot.sound; native_decide theorems additionally trust the Lean compiler and the C toolchain (per-theorem axiom listed in coverage.theorems)',
    'rustc nightly THIR dump represents the source the stable toolchain compiles; translator + Rs primitive table validated by the model-vs-implementation run of this check (coverage.model_vs_impl)',
    'Spec (lean/Spec/*.lean) is the meaning of "posit rule", "IEEE RNE", "nearest-even integer"',
    'usize/isize are 64 bit; hardware f64 arithmetic is IEEE-754',
]

ALL3 = ('p8e0', 'p16e1', 'p32e2')
PROPS = {
    'C01': dict(lean_quick=['Props.C01'], prefixes=['p8e0::ops', 'p16e1::ops', 'p32e2::ops'],
                partial='P8E0: theorem for all pairs; P16E1/P32E2: correspondence + oracle only so far'),
    'C02': dict(lean_quick=[], prefixes=['p8e0::convert', 'p16e1::convert', 'p32e2::convert', 'convert']),
    'C03': dict(lean_quick=[], prefixes=['p8e0::convert', 'p16e1::convert', 'p32e2::convert']),
    'C05': dict(lean_quick=[], prefixes=['p8e0::math::mul_add', 'p16e1::math::mul_add', 'p32e2::math::mul_add']),
    'C06': dict(lean_quick=[], prefixes=['p8e0::math::sqrt', 'p16e1::math::sqrt', 'p32e2::math::sqrt']),
    'C07': dict(lean_quick=[], prefixes=['p8e0::convert', 'p16e1::convert', 'p32e2::convert']),
    'C08': dict(lean_quick=[], prefixes=['convert']),
    'C09': dict(lean_quick=[], prefixes=['p8e0::math', 'p16e1::math', 'p32e2::math']),
    'C10': dict(lean_quick=[], prefixes=['p8e0::{', 'p16e1::{', 'p32e2::{', 'pxe1::{', 'pxe2::{']),
    'C17': dict(lean_quick=[], prefixes=['p8e0', 'p16e1', 'p32e2', 'quire']),
}
OVERRIDE_PROPS = {'C04', 'C12', 'C14', 'C15', 'C16', 'C18'}

def lost_functions(gix, pid):
    base = set(json.load(open(os.path.join(core.VERIF, 'translator/expected_untranslated.json'))))
    out = []
    pre = PROPS.get(pid, {}).get('prefixes', [])
    for p, why in gix.get('not_translated', {}).items():
        if p in base: continue
        q = p.replace('softposit[0000]::', '')
        if pid == 'C16' or any(q.startswith(x) for x in pre):
            out.append((q, why))
    return out

def ops_of(pid):
    out = []
    for ty in TYPES:
        for (op, args, ret, rust, lean, spec, prop) in ops_for(ty):
            if prop == pid or (pid == 'C16'):
                out.append((ty, op, args, spec is not None))
    return out

BUDGET = {'quick': {1: 30000, 2: 40000, 3: 60000}, 'thorough': {1: 300000, 2: 600000, 3: 900000}}

def streams(pid, tier, rng, scale=1):
    lines = []
    for (ty, op, args, has_spec) in ops_of(pid):
        n = TYPES[ty]['n']
        cnt = BUDGET[tier][len(list(args))] * scale
        if pid == 'C16': cnt = cnt // 8
        if pid == 'C17': cnt = cnt // 4
        for vals in cases_for(ty, n, args, cnt, rng, TYPES):
            lines.append(ty + ' ' + op + ' ' + ' '.join('%x' % v for v in vals))
    lines += extra_streams(pid, tier, rng, scale)
    return lines

def extra_streams(pid, tier, rng, scale):
    return []

def distinct_nontrivial(pid, passes):
    n = 0
    for p in passes:
        n += int(p['summary']['spec'].get('compared', 0))
    return max(n, 0)

def samples(passes, pid):
    d = os.path.join(core.WORK, 'runs')
    out = []
    for tag in sorted(os.listdir(d)):
        if tag.startswith(pid + '_'):
            f = os.path.join(d, tag, 'out_0.txt')
            if os.path.exists(f):
                ls = open(f).read().splitlines()
                step = max(1, len(ls) // 8)
                out += ls[::step][:8]
                break
    return out or ['(no cases)']

def trusted_base(pid, obligations):
    tb = ['Lean 4.33.0 kernel', 'propext', 'Classical.choice', 'Quot.sound',
          'translator/thir2lean.py + lean/Rs.lean primitive table (validated by model-vs-impl correspondence, not trusted blindly)',
          'lean/Spec/*.lean (the specification)']
    nat = sorted(set(a for o in obligations.values() for a in o['axioms'] if '._native.' in a))
    if nat: tb.append('%d native_decide axioms (Lean compiler + C toolchain): %s' % (len(nat), ', '.join(nat[:6]) + (' ...' if len(nat) > 6 else '')))
    return tb

def distribution(pid, tier):
    c = collections.Counter()
    for (ty, op, args, has_spec) in ops_of(pid):
        c[ty + ':' + str(len(list(args))) + 'arg' + (':spec' if has_spec else ':model-only')] += 1
    return dict(c)
