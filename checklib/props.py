import collections
import random
"""Per-property configuration: which operations, which input streams, which Lean modules."""
import os, json, collections, random
from . import core
from .gen_inputs import cases_for
import optable
from optable import TYPES, ops_for, PX, px_ops, forwarders

RULE = ('inputs: exhaustive where the operand space is <= 2^16 (all P8E0 unary/binary, all P16E1 unary), otherwise structured '
        '(sign x regime run length x exponent x fraction patterns, neighbours, near-cancellation, ties, saturation, thresholds) '
        'plus uniform random; every random choice from random.Random(VERIF_SEED). A case is non-trivial when it has a '
        'specification value to compare with and not every posit operand is 0 or NaR; distinct = distinct input lines.')
ASSUMPTIONS = [
    'Lean 4.33 kernel; axioms propext, Classical.choice, Quot.sound; native_decide theorems additionally trust the Lean compiler and the C toolchain (per-theorem axiom listed in coverage.theorems)',
    'rustc nightly THIR dump represents the source the stable toolchain compiles; translator + Rs primitive table validated by the model-vs-implementation run of this check (coverage.model_vs_impl)',
    'Spec (lean/Spec/*.lean) is the meaning of "posit rule", "IEEE RNE", "nearest-even integer"',
    'usize/isize are 64 bit; hardware f64 arithmetic is IEEE-754',
]

ALL3 = ('p8e0', 'p16e1', 'p32e2')
PROPS = {
    'C01': dict(lean_quick=['Props.C01Fin'], prefixes=['p8e0::ops', 'p16e1::ops', 'p32e2::ops'],
                partial='P8E0: theorem for all pairs; P16E1/P32E2: correspondence + oracle only so far'),
    'C02': dict(lean_quick=['Props.C02'], prefixes=['p8e0::convert', 'p16e1::convert', 'p32e2::convert', 'convert']),
    'C03': dict(lean_quick=['Props.C03Fin'], prefixes=['p8e0::convert', 'p16e1::convert', 'p32e2::convert']),
    'C05': dict(lean_quick=['Props.C05ShardQuick'], prefixes=['p8e0::math::mul_add', 'p16e1::math::mul_add', 'p32e2::math::mul_add']),
    'C06': dict(lean_quick=['Props.C06Fin'], prefixes=['p8e0::math::sqrt', 'p16e1::math::sqrt', 'p32e2::math::sqrt']),
    'C07': dict(lean_quick=['Props.C07Fin'], prefixes=['p8e0::convert', 'p16e1::convert', 'p32e2::convert']),
    'C08': dict(lean_quick=['Props.C08Fin'], prefixes=['convert']),
    'C09': dict(lean_quick=['Props.C09Fin'], prefixes=['p8e0::math', 'p16e1::math', 'p32e2::math']),
    'C10': dict(lean_quick=['Props.C10Fin', 'Props.C10Gen', 'Props.C10Mono'], prefixes=['p8e0::{', 'p16e1::{', 'p32e2::{', 'pxe1::{', 'pxe2::{']),
    'C17': dict(lean_quick=['Props.C17Fin', 'Props.C17Fwd'], prefixes=['p8e0', 'p16e1', 'p32e2', 'quire']),
    'C11': dict(lean_quick=['Props.C11Fin'], prefixes=['p16e1::math', 'p8e0::math']),
    'C18': dict(lean_quick=['Props.C18', 'Props.C18Q8', 'Props.C18Q8Hi'], prefixes=['polynom']),
    'C19': dict(lean_quick=['Props.C19'], prefixes=['p8e0::{impl#15}', 'p16e1::{impl#15}', 'p32e2::{impl#15}'], assumptions=['rand 0.8: gen_range(lo..hi) returns a value in [lo, hi)']),
    'C16': dict(lean_quick=['Props.C01Fin', 'Props.C03Fin', 'Props.C06Fin', 'Props.C07Fin', 'Props.C08Fin', 'Props.C09Fin', 'Props.C10Fin', 'Props.C11Fin', 'Props.C17Fin', 'Props.C05ShardQuick', 'Props.C04Hist', 'Props.C04Hist16', 'Props.C04Delta16', 'Props.C12Q8', 'Props.C18Q8', 'Props.C18Q8Hi', 'Props.C12Q8Split', 'Props.C19', 'Props.C13', 'Props.C14'],
                totality=True, all_theorems=True, prefixes=['']),
    'C15': dict(lean_quick=['Props.C15', 'Props.C15Pi'], prefixes=['p32e2::math::sleef', 'polynom', 'quire32'], oracle15=True),
    'C13': dict(lean_quick=['Props.C13'], prefixes=['pxe1', 'pxe2']),
    'C14': dict(lean_quick=['Props.C14'], prefixes=['pxe1', 'pxe2', 'convert']),
    'C04': dict(lean_quick=['Props.C04', 'Props.C04Hist', 'Props.C04Hist16', 'Props.C04Delta16', 'Props.C12Q8'], prefixes=['quire8', 'quire16', 'quire32']),
    'C12': dict(lean_quick=['Props.C12', 'Props.C12Q8', 'Props.C12Q8Split'], prefixes=['quire8', 'quire16', 'quire32']),
}
# thorough tier: the P8E0 exhaustive theorems re-proved by kernel evaluation only (`decide +kernel`; axioms: propext, Classical.choice, Quot.sound)
for _p, _m in {'C01': ['Props.C01FinKer', 'Props.C01ShardKer'], 'C03': ['Props.C03FinKer'], 'C06': ['Props.C06FinKer'], 'C07': ['Props.C07FinKer'], 'C08': ['Props.C08FinKer'], 'C09': ['Props.C09FinKer'], 'C10': ['Props.C10FinKer'], 'C11': ['Props.C11FinKer'], 'C17': ['Props.C17FinKer']}.items(): PROPS[_p]['lean_thorough'] = PROPS[_p].get('lean_thorough', []) + _m
# thorough tier of C04 / C12: Q8E0 to_posit on ALL 2^32 states (240 more shards of 2^24, ~3.5 CPU-hours) => C04 for Q8E0 with no side condition
for _p in ('C04', 'C12'): PROPS[_p]['lean_thorough'] = PROPS[_p].get('lean_thorough', []) + ['Props.C12Q8All']
PROPS['C12']['lean_thorough'] += ['Props.C12Q8SplitAll']
OVERRIDE_PROPS = {'C04', 'C12', 'C14', 'C15', 'C16', 'C17', 'C18'}

def lost_functions(gix, pid):
    base = set(json.load(open(os.path.join(core.VERIF, 'translator/expected_untranslated.json'))))
    out = []
    pre = PROPS.get(pid, {}).get('prefixes', [])
    for p, why in gix.get('not_translated', {}).items():
        if p in base: continue
        q = p.replace('softposit[0000]::', '')
        if pid == 'C16' or any(q.startswith(x) for x in pre):
            out.append((q, why))
    return out

def ops_of(pid):
    out = []
    for ty in TYPES:
        for (op, args, ret, rust, lean, spec, prop) in ops_for(ty):
            if prop == pid or (pid == 'C16'):
                out.append((ty, op, args, spec is not None))
    return out

_SRC = {}
def source_constants(ty):
    """every integer literal (hex or decimal, `_` separators) in the source files of posit type `ty` (its module, the shared
    conversion file and — for p32 — the elementary functions): thresholds, masks and table entries as the CURRENT source has
    them, so a changed threshold brings its own neighbourhood into the streams.  Returns a sorted list of ints."""
    import re, glob
    if ty in _SRC: return _SRC[ty]
    mod = TYPES[ty]['mod']
    files = glob.glob(os.path.join(core.REPO, 'src', mod, '**', '*.rs'), recursive=True) + [os.path.join(core.REPO, 'src', mod + '.rs'),
            os.path.join(core.REPO, 'src', 'convert.rs'), os.path.join(core.REPO, 'src', 'macros.rs'), os.path.join(core.REPO, 'src', 'lib.rs')]
    vals = set()
    for fn in files:
        try: txt = open(fn).read()
        except OSError: continue
        txt = re.sub(r'//[^\n]*', '', txt)
        for m in re.finditer(r'(?<![\w.])(-?)\s*(0x[0-9a-fA-F_]+|\d[\d_]*)(?:_?[iu](?:8|16|32|64|128|size))?(?![\w.])', txt):
            t = m.group(2).replace('_', '')
            try: v = int(t, 16) if t.lower().startswith('0x') else int(t)
            except ValueError: continue
            if v > 64: vals.add(v)
    _SRC[ty] = sorted(vals)
    return _SRC[ty]

def constant_cases(ty, n, args, op, rng, limit=1200):
    """neighbourhoods (+-2) of the source's own constants, read as operands of the argument kind (posit patterns and their negations,
    raw float bits, integers), for unary operations; for binary posit operations the constant is paired with special values"""
    args = list(args)
    cs = source_constants(ty)
    out = []
    def around(v, w):
        M = (1 << w) - 1
        return [((v + d) & M) for d in (-2, -1, 0, 1, 2)] + [((-(v + d)) & M) for d in (-1, 0, 1)]
    if len(args) == 1:
        k = args[0]
        w = n if k == 'P' else (TYPES[k]['n'] if k in TYPES else {'f32': 32, 'f64': 64, 'i8': 8, 'u8': 8, 'i16': 16, 'u16': 16, 'i32': 32, 'u32': 32, 'i64': 64, 'u64': 64, 'isize': 64, 'usize': 64}.get(k))
        if w is None: return []
        sel = [v for v in cs if v < (1 << w)]
        if k in ('f32', 'f64'): sel = [v for v in sel if v >= (1 << (w - 12))]      # plausible float bit patterns only
        if len(sel) > limit: sel = rng.sample(sel, limit)
        for v in sel: out += [(x,) for x in around(v, w)]
    elif args == ['P', 'P']:
        sel = [v for v in cs if v < (1 << n)]
        if len(sel) > limit // 8: sel = rng.sample(sel, limit // 8)
        sp = [1, (1 << (n - 2)), (1 << (n - 1)) - 1, (1 << (n - 1)) + 1, (1 << n) - 1]
        for v in sel:
            for x in around(v, n)[:5]:
                for y in sp: out += [(x, y), (y, x)]
    return out

BUDGET = {'quick': {1: 30000, 2: 40000, 3: 60000}, 'thorough': {1: 300000, 2: 600000, 3: 900000}}

def streams(pid, tier, rng, scale=1):
    lines = []
    for (ty, op, args, has_spec) in ops_of(pid):
        n = TYPES[ty]['n']
        cnt = BUDGET[tier][len(list(args))] * scale
        if pid in ('C16', 'C17') and tier == 'thorough': cnt = cnt // 3
        if pid == 'C16': cnt = cnt // 8
        if pid == 'C17': cnt = cnt // 4
        # spelling / totality passes reuse the generators of the owning property; cap them per operation (the owning check runs them in full)
        cap = {'C17': 20000, 'C16': 12000}.get(pid)
        if cap and tier == 'thorough': cap *= 3
        gen_ = cases_for(ty, n, args, cnt, rng, TYPES, op=op)
        if cap:
            allv = list(gen_)
            gen_ = allv if len(allv) <= cap * scale else rng.sample(allv, cap * scale)
        import itertools as _it
        extra_ = constant_cases(ty, n, args, op, rng, limit=(300 if cap else 1200)) if pid != 'C10' else []
        for vals in _it.chain(gen_, extra_):
            if op == 'clamp':
                sg = lambda v: v - (1 << n) if v >> (n - 1) else v
                if sg(vals[1]) > sg(vals[2]): continue      # documented precondition (asserted): min <= max
            if ty == 'p32' and op in ('sin', 'cos', 'tan', 'Float_sin', 'Float_cos', 'Float_tan', 'sin_cos'):
                a_ = vals[0] if vals[0] < (1 << 31) else (1 << 32) - vals[0]
                if a_ >= 0x7d400000 and vals[0] != (1 << 31): continue   # |x| >= 393216: explicit todo!() branch, outside C15/C16
            lines.append(ty + ' ' + op + ' ' + ' '.join('%x' % v for v in vals))
    lines += px_streams(pid, tier, rng, scale)
    lines += extra_streams(pid, tier, rng, scale)
    return lines

def px_streams(pid, tier, rng, scale):
    """generic-width posits: every width N in 2..=32, both exponent sizes; operands are N-bit structured patterns left-aligned in 32 bits"""
    from .gen_inputs import interesting_posits, anyp, related_pair, triple, arg_of, structured_posit
    if pid not in ('C13', 'C14', 'C16', 'C10'): return []
    lines = []
    per = {'C13': 400, 'C14': 150, 'C16': 25, 'C10': 60}[pid] * scale * (10 if tier == 'thorough' else 1)
    for ty in PX:
        for (op, args, ret, rust, lean, spec, prop) in px_ops(ty):
            if pid != 'C16' and prop != pid: continue
            args = list(args)
            for N in range(2, 33):
                sh = 32 - N
                def X():
                    if N <= 3: return rng.getrandbits(N) << sh
                    return anyp(N, rng) << sh
                cases = []
                if op.startswith('gg_'):
                    # generic-to-generic: (second width M, source pattern); every source when it has <= 9 bits, else structured sources plus
                    # the rounding boundaries of the target format (tie, neighbours, tie +- one bit at every position) representable in the source
                    from .gen_inputs import narrowing_sources
                    from optable import GG_WIDTHS
                    es_o = 2 if ty == 'px1' else (2 if op == 'gg_from_px2' else 1)
                    es_n = 1 if ty == 'px1' else 2
                    per_ = max(20, per * 2 // 5)
                    for M_ in GG_WIDTHS:
                        if '_to_' in op: sw, ses, tw, tes = N, es_n, M_, es_o
                        else: sw, ses, tw, tes = M_, es_o, N, es_n
                        ssh = 32 - sw
                        if sw <= 9: srcs = [v << ssh for v in range(1 << sw)]
                        else:
                            srcs = [v << ssh for v in interesting_posits(sw, rng, max(8, per_ // 6))]
                            if tw >= 4 and (tw, tes) != (sw, ses):
                                low_ = (1 << ssh) - 1
                                nb = [v for (v,) in narrowing_sources(32, tw, ses, tes, 60 if tw > 8 else 700) if v & low_ == 0]
                                srcs += nb if len(nb) <= per_ // 2 else rng.sample(nb, per_ // 2)
                        if sw <= 9 and len(srcs) > per_: srcs = rng.sample(srcs, per_) + [0, 1 << 31, 1 << ssh, (1 << 31) - (1 << ssh), (1 << 31) + (1 << ssh), (1 << 32) - (1 << ssh), 1 << 30]
                        cases += [(M_, v) for v in srcs]
                    for vals in cases:
                        lines.append('%s %s %x %s' % (ty, op, N, ' '.join('%x' % v for v in vals)))
                    continue
                if all(k == 'X' for k in args):
                    if N * len(args) <= 10:                      # small widths: every operand tuple
                        import itertools
                        cases = [tuple(v << sh for v in t) for t in itertools.product(range(1 << N), repeat=len(args))]
                    elif len(args) == 1:
                        cases = [(v << sh,) for v in interesting_posits(N, rng, per)]
                    elif len(args) == 2:
                        cases = [tuple(v << sh for v in related_pair(N, rng)) for _ in range(per)]
                    else:
                        cases = [tuple(v << sh for v in triple(N, rng)) for _ in range(per)]
                else:
                    cases = [tuple(X() if k == 'X' else arg_of(k, N, rng, TYPES) for k in args) for _ in range(per)]
                # targeted additions (each after a seeded change was missed, DESIGN.md §11)
                es_x = 1 if ty == 'px1' else 2
                if pid in ('C13', 'C14') and N >= 4:
                    from .gen_inputs import ulpscale_pairs, narrowing_sources
                    import re as _re
                    low = (1 << sh) - 1
                    if args == ['X', 'X'] and _re.match(r'(add|sub)', op):
                        # operands at the alignment edge of each other (early-out thresholds in add_mags / sub_mags)
                        cases += [(a << sh, b << sh) for a, b in ulpscale_pairs(N, es_x, rng, per * 3 if N >= 28 else per // 2)]
                    mt = _re.match(r'to_(p8|p16|p32)', op)
                    if args == ['X'] and mt:
                        # narrowing out of the generic width: rounding boundaries of the fixed-width target (tie, neighbours, tie +- one bit at
                        # every position) that are representable in N bits
                        tn = int(mt.group(1)[1:])
                        src_all = narrowing_sources(32, tn, es_x, None, 200 if tn > 8 else 700)
                        sel = [v for (v,) in src_all if v & low == 0]
                        if len(sel) > 3 * per: sel = rng.sample(sel, 3 * per)
                        cases += [(v,) for v in sel]
                    mf = _re.match(r'from_(p8|p16|p32)', op)
                    if len(args) == 1 and args[0] in TYPES and mf:
                        sn = TYPES[args[0]]['n']
                        if (N, es_x) != (sn, {8: 0, 16: 1, 32: 2}[sn]):
                            src_all = narrowing_sources(sn, N, None, es_x, 24)
                            sel = src_all if len(src_all) <= 2 * per else rng.sample(src_all, 2 * per)
                            cases += list(sel)
                for vals in cases:
                    lines.append('%s %s %x %s' % (ty, op, N, ' '.join('%x' % v for v in vals)))
    return lines

QT = {'q8': 8, 'q16': 16, 'q32': 32}

def quire_history(qt, rng, maxlen=24, state_ops=True):
    """one history line for quire type qt: mixed products / single posits, cancellations, tiny terms that live in one limb only,
    NaR injection, tuple/array/method spellings, neg/clear/from_bits(to_bits)"""
    from .gen_inputs import anyp, structured_posit
    n = QT[qt]
    def P():
        t = rng.random()
        if t < 0.03: return 1 << (n - 1) if rng.random() < 0.3 else 0
        if t < 0.25: return rng.choice((1, 2, 3, (1 << (n - 1)) - 1, (1 << (n - 1)) + 1, (1 << n) - 1, 1 << (n - 2)))
        return anyp(n, rng) if rng.random() < 0.9 else structured_posit(n, rng)
    L = rng.choice((1, 1, 2, 2, 3, 4, 6, 8, 12, maxlen))
    toks = []; terms = []
    for _ in range(L):
        t = rng.randint(0, 19)
        if t <= 4:
            a, b = P(), P(); toks += ['ap', a, b]; terms.append((a, b))
        elif t <= 7:
            a, b = P(), P(); toks += ['sp', a, b]
        elif t == 8: toks += ['a1', P()]
        elif t == 9: toks += ['s1', P()]
        elif t == 10 and terms:
            a, b = rng.choice(terms); toks += ['sp', a, b]              # exact cancellation of an earlier product
        elif t == 11: toks += [rng.choice(('ap2', 'sp2')), P(), P(), P()]
        elif t == 12: toks += ['ap3', P(), P(), P(), P()]
        elif t == 13: toks += [rng.choice(('ap22', 'sp22')), P(), P(), P(), P()]
        elif t == 14:
            k = rng.randint(1, 4); toks += [rng.choice(('apa', 'spa')), P(), k] + [P() for _ in range(k)]
        elif t == 15: toks += [rng.choice(('mp', 'ms', 'tp', 'ts')), P(), P()]
        elif t == 16 and state_ops: toks += ['neg']
        elif t == 17 and state_ops: toks += [rng.choice(('rt', 'rt', 'clear'))]
        elif t == 18: toks += ['ap', 1, rng.choice((1, 2, 3))] if rng.random() < 0.5 else ['sp', 1, 1]   # minpos^2 terms
        else:
            a = P(); toks += ['ap', a, (-a) & ((1 << n) - 1)]
    return qt + ' hist ' + ' '.join(x if isinstance(x, str) else '%x' % x for x in toks)

_POW2 = {}
def quire_tie_history(qt, rng):
    """a history whose exact sum is (posit value) + (exactly half an ulp) +- (one tiny term anywhere below): the read-out must be
    decided by the tiny term alone.  The leading bit is placed on every scale, with extra weight on the 64-bit limb boundaries of
    Q32E2 (bit 63 of a limb: scales -113, -49, 15, 79) and the tiny term on every position down to the quire's last bit."""
    import sys
    from fractions import Fraction as Fr
    sp = os.path.join(core.VERIF, 'tools')
    if sp not in sys.path: sys.path.insert(0, sp)
    from pyspec import rnd, to_rat, ilog2
    n = QT[qt]; es = {8: 0, 16: 1, 32: 2}[n]
    maxe = (n - 2) * (1 << es)
    def pw(e):
        k = (n, e)
        if k not in _POW2: _POW2[k] = rnd(n, es, Fr(2) ** e)
        return _POW2[k]
    def split(t):                      # 2^t as a product of two representable powers of two
        x = max(-maxe, min(maxe, t // 2)); return pw(x), pw(t - x)
    M = (1 << n) - 1
    for _ in range(100):
        if n == 32 and rng.random() < 0.4:
            e = rng.choice((-113, -49, 15, 79)) + rng.choice((0, 0, 0, -1, 1))
            p = pw(e) + (rng.getrandbits(8) if rng.random() < 0.5 else 0)
        else:
            p = rng.randint(1, (1 << (n - 1)) - 2)
        v = to_rat(n, es, p); nx = to_rat(n, es, p + 1)
        e = ilog2(v)
        if ilog2(nx) != e and nx != Fr(2) ** (e + 1): continue        # no fraction bit at this scale: rounding is not arithmetic
        half = (nx - v) / 2
        th = ilog2(half)
        if half != Fr(2) ** th or abs(th) > 2 * maxe: continue
        lo = -2 * maxe
        if th - 1 < lo: continue
        if n == 32 and rng.random() < 0.5:
            limb_top = ((th - 1 + 240) // 64) * 64 - 240     # scale of bit 0 of the limb holding the tie bit
            s_ = rng.choice((limb_top - 1, limb_top - 2, limb_top - 64, limb_top - 65, lo, th - 1))
            s_ = max(lo, min(th - 1, s_))
        else:
            s_ = rng.randint(lo, th - 1)
        terms = [['a1', p], ['ap', *split(th)]]
        k = rng.random()
        if k < 0.45: terms.append(['ap', *split(s_)])
        elif k < 0.9: terms.append(['sp', *split(s_)])
        if rng.random() < 0.5:                                   # the negated sum
            terms = [[{'a1': 's1', 'ap': 'sp', 'sp': 'ap'}[t[0]]] + t[1:] for t in terms]
        rng.shuffle(terms)
        return qt + ' hist ' + ' '.join(x if isinstance(x, str) else '%x' % x for t in terms for x in t)
    return qt + ' hist a1 1'

def quire_state_history(qt, rng):
    """a history that starts from an arbitrary accumulator image (`fb` = Q::from_bits, public API): +-2^k (+- a little) for every bit
    position k of the accumulator, images next to the ends of the range, random images, the NaR image; followed by 0..2 ordinary terms.
    Reaches the states no short history of products can build (|sum| far above maxpos^2 * 24)."""
    from .gen_inputs import anyp
    n = QT[qt]; w = {8: 32, 16: 128, 32: 512}[n]
    M = (1 << w) - 1
    t = rng.random()
    if w > 32 and rng.random() < 0.3:
        # sparse limb images: each 64-bit limb is zero (mostly), a single top or bottom bit, all ones or random - a predicate or a carry
        # chain that skips ONE limb shows only on images whose other limbs are zero
        v = 0
        for _ in range(w // 64):
            r_ = rng.random()
            limb = 0 if r_ < 0.55 else (1 << 63 if r_ < 0.67 else (1 if r_ < 0.77 else ((1 << 64) - 1 if r_ < 0.85 else rng.getrandbits(64))))
            v = (v << 64) | limb
        if rng.random() < 0.5: v = (v & ((1 << (w - 64)) - 1)) | (rng.choice((1 << 63, 0, (1 << 64) - 1, (1 << 63) | 1)) << (w - 64))
        toks = ['fb', '%x' % (v & M)]
        if rng.random() < 0.5:
            from .gen_inputs import anyp as _anyp
            toks += [rng.choice(('ap', 'sp')), '%x' % _anyp(n, rng), '%x' % _anyp(n, rng)] if rng.random() < 0.6 else [rng.choice(('a1', 's1', 'neg', 'rt'))] 
            if toks[-1] in ('a1', 's1'): toks.append('%x' % _anyp(n, rng))
        return qt + ' hist ' + ' '.join(toks)
    if t < 0.45:
        k = rng.randint(0, w - 2); v = 1 << k
        d = rng.choice((0, 0, 1, -1, 1 << rng.randint(0, max(0, k - 1)) if k else 0, (1 << k) - 1, rng.getrandbits(k) if k else 0))
        v = v + d
    elif t < 0.6: v = (1 << (w - 1)) - 1 - rng.choice((0, 1, 2, rng.getrandbits(8), rng.getrandbits(w - 2)))
    elif t < 0.9: v = rng.getrandbits(rng.randint(1, w - 1))
    elif t < 0.95: v = rng.getrandbits(w - 1)
    else: v = 1 << (w - 1)                                   # NaR
    if rng.random() < 0.5 and v != (1 << (w - 1)): v = (-v) & M
    toks = ['fb', '%x' % (v & M)]
    for _ in range(rng.choice((0, 0, 1, 1, 2))):
        k = rng.randint(0, 5)
        P = lambda: anyp(n, rng) if rng.random() < 0.7 else rng.choice((1, (1 << (n - 1)) - 1, (1 << (n - 1)) + 1, (1 << n) - 1, 1 << (n - 2)))
        if k <= 1: toks += ['ap', '%x' % P(), '%x' % P()]
        elif k == 2: toks += ['sp', '%x' % P(), '%x' % P()]
        elif k == 3: toks += [rng.choice(('a1', 's1')), '%x' % P()]
        elif k == 4: toks += ['neg']
        else: toks += ['rt']
    return qt + ' hist ' + ' '.join(toks)

def quire_boundary_spellings(qt, rng, count):
    """C17 on the quire: the single-posit forms (`q += p`, `q -= p`) and the product forms with ONE (`q += (p, 1)`, add_product, the
    Quire trait method) must leave the same accumulator for EVERY state, also where the sum wraps: states chosen so that q +- p lands
    exactly on the NaR image, on zero, on the two ends of the range, or anywhere (random image)."""
    import sys
    sp = os.path.join(core.VERIF, 'tools')
    if sp not in sys.path: sys.path.insert(0, sp)
    from pyspec import to_rat
    from .gen_inputs import anyp, interesting_posits
    n = QT[qt]; es = {8: 0, 16: 1, 32: 2}[n]; w = {8: 32, 16: 128, 32: 512}[n]; fb = {8: 12, 16: 56, 32: 240}[n]
    M = (1 << w) - 1; one = 1 << (n - 2); nar = 1 << (w - 1)
    ps = interesting_posits(n, rng, count) + [anyp(n, rng) for _ in range(count)]
    out = []
    for p in ps:
        v = to_rat(n, es, p)
        if v is None or v == 0: continue
        img = int(v * (1 << fb))                      # exact: every posit is a multiple of 2^-fb
        for target in (nar, 0, nar - 1, nar + 1, rng.getrandbits(w)):
            for sign, forms in ((1, ('a1 %x', 'ap %x {o:x}', 'ap {o:x} %x', 'mp %x {o:x}', 'tp %x {o:x}')), (-1, ('s1 %x', 'sp %x {o:x}', 'sp {o:x} %x', 'ms %x {o:x}', 'ts %x {o:x}'))):
                S = (target - sign * img) & M
                if S == nar: continue                    # a NaR start state stays NaR in every spelling (covered elsewhere)
                for f in forms:
                    out.append('%s hist fb %x %s' % (qt, S, f.format(o=one) % p))
    return out

def quire_tie_history_px(N, rng):
    """`q32 histpx N`: exact sum = (an N-bit es=2 posit) + (exactly half an ulp of the N-bit format) +- (one tiny term): the three conversions
    of the accumulator into PxE2<N> are decided by the tiny term alone.  The tiny term is placed at every distance below the leading bit,
    with extra weight on 62..66 positions below it (the seam of the 64-bit working window) and on the bottom of the quire."""
    import sys
    from fractions import Fraction as Fr
    sp = os.path.join(core.VERIF, 'tools')
    if sp not in sys.path: sys.path.insert(0, sp)
    from pyspec import rnd, to_rat, ilog2
    sh = 32 - N; maxe = (N - 2) * 4
    def pw(e): return rnd(N, 2, Fr(2) ** e) << sh
    def split(t):
        x = max(-maxe, min(maxe, t // 2)); return pw(x), pw(t - x)
    for _ in range(200):
        p = rng.randint(1, (1 << (N - 1)) - 2)
        v = to_rat(N, 2, p); nx = to_rat(N, 2, p + 1); e = ilog2(v)
        if ilog2(nx) != e and nx != Fr(2) ** (e + 1): continue
        half = (nx - v) / 2; th = ilog2(half)
        if half != Fr(2) ** th or abs(th) > 2 * maxe: continue
        lo = max(-240, -2 * maxe)
        if th - 1 < lo: continue
        r_ = rng.random()
        if r_ < 0.4: s_ = e - rng.choice((62, 63, 64, 64, 64, 65, 66))
        elif r_ < 0.5: s_ = lo
        else: s_ = rng.randint(lo, th - 1)
        s_ = max(lo, min(th - 1, s_))
        if abs(s_) > 2 * maxe: continue
        terms = [['a1', p << sh], ['ap', *split(th)], [rng.choice(('ap', 'sp')), *split(s_)]]
        if rng.random() < 0.5: terms = [[{'a1': 's1', 'ap': 'sp', 'sp': 'ap'}[t[0]]] + t[1:] for t in terms]
        rng.shuffle(terms)
        return 'q32 histpx %x %s' % (N, ' '.join(x if isinstance(x, str) else '%x' % x for t in terms for x in t))
    return 'q32 histpx %x a1 %x' % (N, 1 << 30)

def quire_history_px(N, rng, maxlen=10):
    """the same grammar on Q32E2 with PxE2<N> operands: N-bit posit patterns left-aligned in 32 bits (no inherent mp/ms methods)"""
    line = quire_history('q32' if N > 16 else ('q16' if N > 8 else 'q8'), rng, maxlen=maxlen)
    src = 32 if N > 16 else (16 if N > 8 else 8)
    toks = line.split()[2:]
    out = []; i = 0
    arity = {'ap': 2, 'sp': 2, 'a1': 1, 's1': 1, 'ap2': 3, 'sp2': 3, 'ap3': 4, 'ap22': 4, 'sp22': 4, 'mp': 2, 'ms': 2, 'tp': 2, 'ts': 2, 'neg': 0, 'clear': 0, 'rt': 0, 'fp': 1}
    def cv(t):
        v = int(t, 16)                       # a `src`-bit pattern: keep its top N bits as the N-bit posit
        v = (v >> (src - N)) if src >= N else (v << (N - src))
        if src == 8 and N > 8: pass
        return '%x' % ((v & ((1 << N) - 1)) << (32 - N))
    while i < len(toks):
        t = toks[i]
        if t in ('apa', 'spa'):
            k = int(toks[i + 2], 16)
            out += [t, cv(toks[i + 1]), toks[i + 2]] + [cv(x) for x in toks[i + 3:i + 3 + k]]; i += 3 + k
        else:
            k = arity[t]
            out += [{'mp': 'tp', 'ms': 'ts'}.get(t, t)] + [cv(x) for x in toks[i + 1:i + 1 + k]]; i += 1 + k
    return 'q32 histpx %x %s' % (N, ' '.join(out))

_TRIG = {}
def trig_worst_cases(count):
    """the P32E2 patterns in the reduced range (|x| < 393216) that lie closest — relative to the multiplier q — to a multiple
    of pi/2: where an error in the argument reduction (the pi split, the quotient, the quire subtraction) is magnified most.
    All ~250k multiples are scanned; deterministic; cached in work/."""
    import json
    cache = os.path.join(core.WORK, 'trig_worst.json')
    if 'v' not in _TRIG:
        if os.path.exists(cache):
            _TRIG['v'] = json.load(open(cache))
        else:
            from fractions import Fraction as Fr
            import sys
            sp = os.path.join(core.VERIF, 'tools')
            if sp not in sys.path: sys.path.insert(0, sp)
            from pyspec import rnd, to_rat
            # pi to 200 bits (Machin), as a fraction
            def atan_inv(x, bits):
                one = 1 << bits; t = one // x; s_ = t; n = 1; x2 = x * x; sign = -1
                while t:
                    t //= x2; n += 2; s_ += sign * (t // n); sign = -sign
                return s_
            bits = 260
            pi = Fr(4 * (4 * atan_inv(5, bits) - atan_inv(239, bits)), 1 << bits)
            out = []
            k = 1
            while True:
                v = pi * k / 2
                if v >= 393216: break
                p = rnd(32, 2, v)
                best = None
                for d in (-1, 0, 1):
                    r = abs(to_rat(32, 2, p + d) - v)
                    if best is None or r < best[0]: best = (r, p + d)
                out.append((float(best[0]) / k, best[1]))
                k += 1
            out.sort()
            _TRIG['v'] = [p for _, p in out[:20000]]
            os.makedirs(core.WORK, exist_ok=True)
            json.dump(_TRIG['v'], open(cache, 'w'))
    M32 = (1 << 32) - 1
    res = []
    for p in _TRIG['v'][:count]:
        res += [p, (-p) & M32]
    return res

SCANS = {'C06': ['sqrt'], 'C09': ['round', 'floor', 'ceil', 'trunc', 'fract'],
         'C07': ['to_i32', 'to_u32', 'to_i64', 'to_u64', 'from_i32', 'from_u32', 'p16_from_u64', 'p16_from_i64', 'p8_from_u64', 'p8_from_i64', 'from_u64w', 'from_i64w'],
         'C10': ['classify'], 'C13': ['px:px2-binary', 'px:px1-binary', 'wide:px2fma'], 'C14': ['px:px2-unary', 'px:px1-unary'],
         'C03': ['to_f64', 'to_f32', 'rt_f64', 'rt_str'], 'C02': ['from_f32', 'p16_from_f32', 'p8_from_f32'], 'C08': ['to_p16_m', 'to_p8_m'], 'C01': ['p16-pairs', 'wide:p32'], 'C05': ['wide:p32fma', 'wide:p16fma']}
SCAN_LOG = []
SCAN_SEED = [1]
_GAPC = {}
def gap_product_triples(limit=6000):
    """P16E1 fused operations: operand pairs whose EXACT product has a long run of zeros between its top and its lowest set bit
    (1 + k*2^G factored into two 13-bit significands: what random or few-bit operands never give), each with the addends that make the
    aligned sum carry out onto an exact tie with the product's lowest bit as the only sticky bit (all-ones addend at the scales where that
    lowest bit lands on the last bits of the 32-bit working word).  Deterministic, cached in work/."""
    import json
    cache = os.path.join(core.WORK, 'gap_triples_p16.json')
    if 'v' in _GAPC: return _GAPC['v'][:limit]
    if os.path.exists(cache):
        _GAPC['v'] = json.load(open(cache)); return _GAPC['v'][:limit]
    import sys
    sp = os.path.join(core.VERIF, 'tools')
    if sp not in sys.path: sys.path.insert(0, sp)
    from pyspec import rnd
    from fractions import Fraction as Fr
    pairs = []
    for G in range(14, 25):
        for k in range(1, 1 << (26 - G)):
            n_ = 1 + (k << G)
            x = 3
            while x * x <= n_ and x < 8192:
                if n_ % x == 0 and n_ // x < 8192: pairs.append((x, n_ // x))
                x += 2
    M = 0xffff
    out = []
    rr = random.Random(4242)
    rr.shuffle(pairs)
    for (x, y) in pairs[:1500]:
        bx, by = x.bit_length() - 1, y.bit_length() - 1
        a = rnd(16, 1, Fr(x, 1 << bx)); b = rnd(16, 1, Fr(y, 1 << by))
        t = -(bx + by)                                  # scale of the lowest set bit of the exact product (x*y is odd)
        for s_ in range(t + 26, t + 33):
            if s_ + 1 > 27: continue
            c = rnd(16, 1, Fr(2) ** (s_ + 1)) - 1         # the largest posit below 2^(s+1): all-ones fraction
            nc = (-c) & M; na = (-a) & M
            out += ['p16 mul_add %x %x %x' % (a, b, c), 'p16 mul_add %x %x %x' % (na, b, nc), 'p16 mul_sub %x %x %x' % (a, b, nc),
                    'p16 sub_product %x %x %x' % (a, b, nc)]
    json.dump(out, open(cache, 'w'))
    _GAPC['v'] = out
    return out[:limit]

def exhaustive_scans(pid, tier):
    """run the harness's exhaustive scans that belong to the property; returns the candidate lines (empty on a correct tree)"""
    import subprocess, time
    ops = list(SCANS.get(pid, []))
    if pid == 'C16' and tier == 'thorough': ops = sorted({o for v in SCANS.values() for o in v})
    exe = os.path.join(core.TARGET, 'release', 'verif_harness')
    out = []
    for op in ops:
        t0 = time.time()
        if op == 'p16-pairs':
            stride = 1 if (tier == 'thorough' or pid == 'C01') else 16
            cmd = [exe, '--p16-scan', str(stride), '500']; space = (65536 // stride) * 65536 * 4
        elif op.startswith('px:'):
            # generic-width types: binary + - * / on ALL operand pairs for every N <= 14 (16 in the thorough tier); unary conversions (and PxE2 sqrt)
            # on ALL patterns for every N <= 28 (32 in the thorough tier)
            binary = op.endswith('binary')
            nb = (16 if binary else 32) if tier == 'thorough' else (14 if binary else 28)
            cmd = [exe, '--px-scan', op[3:], str(nb), '300']
            space = sum(4 * (1 << (2 * n)) for n in range(2, nb + 1)) if binary else sum((10 if 'px2' in op else 9) * (1 << n) for n in range(2, nb + 1))
        elif op == 'rt_str':
            st_ = 4 if tier == 'thorough' else 64      # decimal formatting + parsing is slow: every 64th (thorough: 4th) pattern
            cmd = [exe, '--scan', op, '2000']; space = (1 << 32) // st_; os.environ['VERIF_SCAN_STRIDE'] = str(st_)
        elif op in ('from_u64w', 'from_i64w'):
            # NOT exhaustive: every 4th (thorough: every) 32-bit significand at 4 shifts, with and without a low sticky bit
            st_ = 1 if tier == 'thorough' else 4
            cmd = [exe, '--scan', op, '2000']; space = (1 << 32) // st_ * 8; os.environ['VERIF_SCAN_STRIDE'] = str(st_)
        elif op.startswith('wide:'):
            # NOT exhaustive: massive structured sampling (random / regime-and-fraction patterns / neighbours of a and -a / for the fused
            # operations addends next to the negated rounded product) against the exact reference
            lg = (34 if tier == 'thorough' else (31 if op == 'wide:p32' else 30))
            cmd = [exe, '--wide-scan', op[5:], str(lg), '300', str(SCAN_SEED[0])]; space = 1 << lg
        elif op == 'sqrt': cmd = [exe, '--sqrt-scan', '2000']; space = (1 << 31) - 1
        else: cmd = [exe, '--scan', op, '2000']; space = 1 << 32
        def _run(c):
            try:
                r_ = subprocess.run(c, capture_output=True, text=True, timeout=1800)
                return (r_.returncode == 0), ([l for l in r_.stdout.split('\n') if l.strip()] if r_.returncode == 0 else [])
            except Exception:
                return False, []
        ok, cand = _run(cmd)
        if not ok: ok, cand = _run(cmd)          # one retry: a scan that did not run is reported (DID NOT RUN) and recorded in the evidence
        # thorough tier, plain unary scans of the property itself: also in the overflow-checked (dev) build - a debug-only panic on an
        # unstructured 32-bit input is a candidate too
        if ok and tier == 'thorough' and pid != 'C16' and cmd[1] == '--scan' and op not in ('rt_str', 'from_u64w', 'from_i64w'):
            dev = os.path.join(core.TARGET, 'debug', 'verif_harness')
            if os.path.exists(dev):
                t1 = time.time()
                ok2, cand2 = _run([dev] + cmd[1:])
                SCAN_LOG.append({'scan': op + ' (dev profile)', 'exhaustive': True, 'inputs': space if ok2 else 0, 'candidates': len(cand2), 'wall_s': round(time.time() - t1, 1), 'ran': ok2})
                cand = cand + [c for c in cand2 if c not in set(cand)]
        if op == 'sqrt': cand = ['p32 sqrt ' + c for c in cand]
        SCAN_LOG.append({'scan': op, 'exhaustive': not (op.startswith('wide:') or op in ('from_u64w', 'from_i64w') or op == 'rt_str'), 'inputs': space if ok else 0, 'candidates': len(cand), 'wall_s': round(time.time() - t0, 1), 'ran': ok})
        for c in cand:
            out.append(c)
            t = c.split()
            if t[0] == 'p32' and t[1] in ('sqrt', 'round', 'floor', 'ceil', 'trunc', 'fract'): out.append('p32 Float_%s %s' % (t[1], t[2]))
    return out

def extra_streams(pid, tier, rng, scale):
    from .gen_inputs import interesting_posits
    lines = []
    big = (3 if pid in ('C16', 'C17') else 10) if tier == 'thorough' else 1   # C16/C17 are unions of all families: keep the thorough tier under an hour
    if pid in ('C04', 'C12', 'C16', 'C17'):
        cnt = {'C04': 30000, 'C12': 15000, 'C16': 4000, 'C17': 4000}[pid] * scale * big
        for qt in QT:
            for _ in range(cnt):
                l = quire_history(qt, rng)
                lines.append(l)
                if pid == 'C04' and rng.random() < 0.1:
                    # the same multiset of terms in another order (order independence), only for plain product terms
                    toks = l.split()[2:]
                    if all(t in ('ap', 'sp') or t[0] in '0123456789abcdef' for t in toks) and len(toks) % 3 == 0:
                        trip = [toks[i:i + 3] for i in range(0, len(toks), 3)]
                        rng.shuffle(trip)
                        lines.append(qt + ' hist ' + ' '.join(' '.join(t) for t in trip))
            for _ in range({'C04': 4000, 'C12': 4000, 'C16': 800, 'C17': 200}[pid] * scale * big):
                lines.append(quire_tie_history(qt, rng))
            for _ in range({'C04': 4000, 'C12': 4000, 'C16': 1500, 'C17': 200}[pid] * scale * big):
                lines.append(quire_state_history(qt, rng))
    if pid in ('C14', 'C16', 'C17'):
        # Q32E2 with generic-width operands: PxE2<N>::from(&q), Quire<PxE2<N>>::to_posit, PxE2<N>::from(q) after a history
        cntpx = {'C14': 600, 'C16': 60, 'C17': 120}[pid] * scale * big
        for N in range(2, 33):
            for _ in range(cntpx):
                lines.append(quire_history_px(N, rng))
            if N >= 5:
                for _ in range(max(40, cntpx // 2)):
                    lines.append(quire_tie_history_px(N, rng))
            sh = 32 - N
            for a in range(1 << min(N, 9)):          # every (or the first 512) single N-bit posit(s): quire round trip
                lines.append('q32 histpx %x fp %x' % (N, a << sh)); lines.append('q32 histpx %x a1 %x' % (N, ((a << (N - min(N, 9))) & ((1 << N) - 1)) << sh))
    if pid in ('C17', 'C16'):
        for qt in QT: lines += quire_boundary_spellings(qt, rng, (60 if pid == 'C17' else 10) * scale * big)
    if pid == 'C17':
        # generic-width types: the same inputs through the spelled and the inherent form (compared pairwise by agreement_failures)
        pxl = px_streams('C14', 'quick', rng, scale) + px_streams('C13', 'quick', rng, scale) + px_streams('C10', 'quick', rng, scale)
        byop = collections.defaultdict(list)
        for l in pxl:
            t = l.split(' ', 2); byop[(t[0], t[1])].append(t[2])
        for ty in PX:
            for a_, b_ in px_forwarders(ty):
                tails = byop.get((ty, b_), [])
                if len(tails) > 6000: tails = rng.sample(tails, 6000)
                for tl in tails:
                    lines.append('%s %s %s' % (ty, a_, tl)); lines.append('%s %s %s' % (ty, b_, tl))
        # agreement pairs: the spelled operation and the inherent one on IDENTICAL inputs (compared pairwise by the check)
        for ty in TYPES:
            n = TYPES[ty]['n']
            for (a_, b_, args) in forwarders(ty):
                allv = list(cases_for(ty, n, args, 2500 * scale * big, rng, TYPES, op=b_))
                if len(allv) > 12000 * scale * big: allv = rng.sample(allv, 12000 * scale * big)
                for vals in allv:
                    tail = ' '.join('%x' % v for v in vals)
                    lines.append('%s %s %s' % (ty, a_, tail)); lines.append('%s %s %s' % (ty, b_, tail))
    if pid in ('C18', 'C16'):
        from .gen_inputs import anyp, structured_posit
        per = (1500 if pid == 'C18' else 200) * scale * big
        degs = [str(d) for d in range(1, 19)] + ['3a', '4a']
        for ty, n in (('p8', 8), ('p16', 16), ('p32', 32)):
            nar = 1 << (n - 1)
            for d in degs:
                k = {'3a': 4, '4a': 5}.get(d, (int(d) if d.isdigit() else 0) + 1)
                for i in range(per):
                    mode = rng.randint(0, 5)
                    def P():
                        if mode == 0: return rng.getrandbits(n)
                        if mode == 1: return anyp(n, rng)
                        # moderate magnitudes (around 1) so that sums neither saturate nor vanish: cancellation matters
                        v = (1 << (n - 2)) + rng.randint(-(1 << (n - 3)), (1 << (n - 3)))
                        return (v if rng.getrandbits(1) else -v) & ((1 << n) - 1)
                    x = P(); cs = [P() for _ in range(k)]
                    if mode == 5 and rng.random() < 0.3: cs[rng.randrange(k)] = rng.choice((0, nar))
                    lines.append('%s poly %s %x %s' % (ty, d, x, ' '.join('%x' % c for c in cs)))
                # sparse arrays: all coefficients zero except one or two powers of two, x a power of two of any scale: stage sums at the very
                # bottom / top of the quire (a single tiny term must round to +-minpos, never to zero)
                import sys as _sys
                _sp = os.path.join(core.VERIF, 'tools')
                if _sp not in _sys.path: _sys.path.insert(0, _sp)
                from pyspec import rnd as _rnd
                from fractions import Fraction as _Fr
                es_ = {8: 0, 16: 1, 32: 2}[n]; maxe = (n - 2) * (1 << es_)
                for i in range(max(20, per // 10)):
                    ex = rng.randint(-maxe, maxe) if rng.random() < 0.7 else rng.choice((-maxe, -maxe + 1, -maxe // 2, maxe))
                    x = _rnd(n, es_, _Fr(2) ** ex)
                    if rng.random() < 0.3: x = (-x) & ((1 << n) - 1)
                    cs = [0] * k
                    for _ in range(rng.choice((1, 1, 2))):
                        c_ = _rnd(n, es_, _Fr(2) ** rng.randint(-maxe, maxe))
                        cs[rng.randrange(k)] = c_ if rng.random() < 0.7 else (-c_) & ((1 << n) - 1)
                    lines.append('%s poly %s %x %s' % (ty, d, x, ' '.join('%x' % c for c in cs)))
        if pid == 'C18':
            for x in range(256):      # P8E0 poly1/poly2: every x with a few coefficient sets
                for cs in ((0x40, 0x40), (0x30, 0xd0), (0x7f, 0x01), (0x20, 0x40, 0xc0)):
                    lines.append('p8 poly %d %x %s' % (len(cs) - 1, x, ' '.join('%x' % c for c in cs)))
    if pid in ('C19', 'C16'):
        per = (60000 if pid == 'C19' else 3000) * scale * big
        for ty in ('p8', 'p16', 'p32'):
            for _ in range(per):
                lines.append('%s sample_seed %x' % (ty, rng.getrandbits(64)))
        # replayed raw generator outputs: edge streams and structured words (rand maps them to draws by widening multiply)
        raws = [0, 0xffffffff, 0x80000000, 0x7fffffff, 1, 0xfffffffe, 0xaaaaaaaa, 0x55555555, 0xffff0000, 0x0000ffff]
        for ty in ('p8', 'p16', 'p32'):
            for a_ in raws:
                for b_ in raws: lines.append('%s sample_raw %x %x %x' % (ty, a_, b_, (a_ ^ b_) | 1))
            for _ in range(per // 4):
                lines.append('%s sample_raw %x %x %x' % (ty, rng.getrandbits(32), rng.getrandbits(32), rng.getrandbits(32)))
            for k in range(0, 1 << 32, 1 << 20):      # sweep the top bits of the first word: every region of the draw range
                lines.append('%s sample_raw %x %x %x' % (ty, k | rng.getrandbits(20), rng.getrandbits(32), rng.getrandbits(32)))
        # rand 0.8 maps a raw word w to lo + ((hi-lo)*w >> 32): the top / bottom of each draw's range come from words next to 2^32 / 0.
        # Every combination of an extreme first draw with each residue class of the second draw (P32E2 XORs a 2-bit second draw).
        if pid == 'C19':
            edge = list(range(0, 48)) + list(range((1 << 32) - 64, 1 << 32)) + [(k_ << 24) | d_ for k_ in (0x40, 0x80, 0xc0) for d_ in (0, 1, 0xffffff)]
            seconds = [0, 0x3fffffff, 0x40000000, 0x7fffffff, 0x80000000, 0xbfffffff, 0xc0000000, 0xffffffff]
            for ty in ('p8', 'p16', 'p32'):
                for w1 in edge:
                    for w2 in seconds:
                        lines.append('%s sample_raw %x %x %x' % (ty, w1, w2, w2))
        # the private helper of P16E1 sampling on EVERY input of its domain (through the verification hook)
        if pid == 'C19':
            for u in range(1 << 18): lines.append('p16 sub_one %x' % u)
        else:
            for _ in range(per): lines.append('p16 sub_one %x' % rng.randrange(1 << 18))
    if pid in ('C06', 'C16'):
        # the hardest-to-round P32E2 square roots: exact integer search over all 2^31 positive patterns by the harness's own
        # (crate-independent) tool, cached in work/
        k_ = (1000000 if pid == 'C06' else 100000) * (6 if tier == 'thorough' else 1)
        cache = os.path.join(core.WORK, 'sqrt_hard_p32_%d.txt' % k_)
        if not os.path.exists(cache):
            import subprocess
            exe = os.path.join(core.TARGET, 'release', 'verif_harness')
            r_ = subprocess.run([exe, '--sqrt-hard', str(k_)], capture_output=True, text=True)
            if r_.returncode == 0 and r_.stdout: open(cache, 'w').write(r_.stdout)
        if os.path.exists(cache):
            for x_ in open(cache).read().split():
                lines.append('p32 sqrt ' + x_)
    # exhaustive SEARCHES (not proofs): the freshly built release harness runs the operation on ALL 2^32 inputs (all 2^32 operand pairs for
    # the P16E1 arithmetic) and compares with its own exact integer reference (own posit decoder/encoder, u128 arithmetic: harness/src/
    # scan.rs, hard16.rs, hard.rs); every disagreeing or panicking input becomes a protocol line that the specification judges below
    if pid in ('C05', 'C16'):
        lines += gap_product_triples(40000 if pid == 'C05' else 4000)
    SCAN_SEED[0] = rng.getrandbits(32)
    for ln in exhaustive_scans(pid, tier): lines.append(ln)
    if pid == 'C15':
        import math
        sys_path = os.path.join(core.VERIF, 'tools')
        import sys
        if sys_path not in sys.path: sys.path.insert(0, sys_path)
        from pyspec import rnd, to_rat
        from fractions import Fraction as Fr
        from .gen_inputs import interesting_posits, anyp, related_pair
        per = 4000 * scale * big
        M32 = (1 << 32) - 1
        def around(v, k=3):
            p = rnd(32, 2, Fr(v)); return [(p + d) & M32 for d in range(-k, k + 1)]
        special = []
        for kk in list(range(1, 64)) + [100, 1000, 12345, 100000, 250000]:          # multiples of pi/2 (argument reduction), both signs
            for v in around(kk * math.pi / 2): special += [v, (-v) & M32]
        for e in range(-30, 31):                                                   # powers of two and neighbours
            for v in around(2.0 ** e, 1): special += [v, (-v) & M32]
        for v in (0.5, 1.0, 1.5, 2.0, 0.25, 104.0, -104.0, 88.0, 127.99, -149.9, 1e-9, 3e5, 393215.0):
            special += around(v, 2)
        trig_worst = trig_worst_cases(3000 * scale * big)
        un = ['sin', 'cos', 'tan', 'asin', 'acos', 'atan', 'ln', 'log2', 'exp', 'exp2', 'sinh', 'cosh', 'cbrt']
        for f in un:
            for a in special: lines.append('p32 %s %x' % (f, a))
            if f in ('sin', 'cos', 'tan'):
                for a in trig_worst: lines.append('p32 %s %x' % (f, a))
            for a in interesting_posits(32, rng, per): lines.append('p32 %s %x' % (f, a))
            for _ in range(per): lines.append('p32 %s %x' % (f, rng.getrandbits(32)))
            lo, hi = {'asin': (-0x40000000, 0x40000000), 'acos': (-0x40000000, 0x40000000), 'exp': (-0x6a800000, 0x6a800000), 'exp2': (-0x6cb00000, 0x6c000000),
                      'sinh': (-0x69800000, 0x69800000), 'cosh': (-0x69800000, 0x69800000), 'sin': (-0x7d400000 + 1, 0x7d400000 - 1), 'cos': (-0x7d400000 + 1, 0x7d400000 - 1),
                      'tan': (-0x7d400000 + 1, 0x7d400000 - 1), 'ln': (1, 0x7fffffff), 'log2': (1, 0x7fffffff)}.get(f, (-0x7fffffff, 0x7fffffff))
            for _ in range(per): lines.append('p32 %s %x' % (f, rng.randint(lo, hi) & M32))      # what the crate's own ULP tests sample
        for f in ('atan2', 'hypot'):
            for _ in range(per):
                a, b = related_pair(32, rng); lines.append('p32 %s %x %x' % (f, a, b))
            for _ in range(per): lines.append('p32 %s %x %x' % (f, rng.getrandbits(32), rng.getrandbits(32)))
            for a in special[:60]:
                for b in (0x40000000, 0xc0000000, 1, 0x7fffffff, a): lines.append('p32 %s %x %x' % (f, a, b))
        for _ in range(per * 2):
            lines.append('p32 powf %x %x' % (rng.randint(0x38000000, 0x52000000), rng.randint(0x38000000, 0x52000000)))
        for a in (0x40000000, 0x48000000, 0x38000000, 0x52000000, 0x44000000):
            for b in (0x40000000, 0x48000000, 0x38000000, 0x52000000, 0x44000000, 0x3c000000): lines.append('p32 powf %x %x' % (a, b))
        # powf outside the range the crate's own test samples: negative bases with integer exponents (sign logic: parity decided up
        # to 2^23, where every P32E2 value is an even integer), bases next to 1 with huge exponents, zero / one / NaR special cases,
        # arbitrary pairs (the oracle skips pairs whose result over- or underflows)
        P_ = lambda v: rnd(32, 2, Fr(v))
        ints = [1, 2, 3, 4, 5, 7, 8, 15, 16, 101, 1000, 65535, 65536, 65537] + [(1 << j) + d for j in (20, 21, 22, 23, 24) for d in (-3, -2, -1, 0, 1, 2, 3)]
        bases = [P_(-1), P_(-2), P_(Fr(-3, 2)), P_(Fr(-1, 2)), P_(-3), P_(1), P_(2), 0xc0000001, 0xbfffffff, 0x40000001, 0x3fffffff, 0xc0000040, 0x40000040, 0, 0x80000000]
        for x in bases:
            for i_ in ints:
                for sg in (1, -1):
                    lines.append('p32 powf %x %x' % (x, P_(sg * i_) & M32))
            for y in (0, 0x80000000, P_(Fr(1, 2)), P_(Fr(-1, 2)), P_(Fr(5, 2)), P_(Fr(1, 3)), 1, M32):
                lines.append('p32 powf %x %x' % (x, y))
        for _ in range(per):
            x = rng.randint(0x20000000, 0x60000000); x = (-x) & M32 if rng.random() < 0.6 else x
            y = P_(rng.choice(ints) * rng.choice((1, -1))) if rng.random() < 0.5 else P_(rng.randint(-300, 300))
            lines.append('p32 powf %x %x' % (x, y & M32))
        for _ in range(per):
            x = 0x40000000 + rng.randint(-2000, 2000); x = (-x) & M32 if rng.random() < 0.5 else x
            y = P_(rng.choice(ints) * rng.choice((1, -1))) if rng.random() < 0.7 else rng.getrandbits(32)
            lines.append('p32 powf %x %x' % (x, y & M32))
        for _ in range(per):
            lines.append('p32 powf %x %x' % (rng.randint(1, 0x7fffffff), rng.getrandbits(32)))
        # witnesses of the open finding POWF-6ULP (the stated bound 5 is exceeded by one encoding for about 1 pair in 2.7 million)
        for w_ in ('4b20fd3b 4aaf62ec', '4aed239b 4af62261', '4b60fb8b 4a912c90', '4b1d6a09 4a7c9ae6', '4be1126d 4a0b1414'):
            lines.append('p32 powf ' + w_)
    if pid == 'C12':
        # posit -> quire -> posit round trip and the state operations on single-posit states
        for qt, n in QT.items():
            xs = range(1 << n) if n <= 16 else interesting_posits(n, rng, 60000 * scale * big)
            for x in xs:
                lines.append('%s hist fp %x' % (qt, x))
            for x in (interesting_posits(n, rng, 3000)):
                lines.append('%s hist fp %x neg' % (qt, x))
                lines.append('%s hist a1 %x rt neg neg' % (qt, x))
    return lines

def px_forwarders(ty):
    """spelled / inherent pairs of the generic-width types (same argument kinds)"""
    P = [(o + '_assign', o) for o in ('add', 'sub', 'mul', 'div')]
    for k in ('i32', 'u32', 'i64', 'u64'): P += [('From_' + k, 'from_' + k), (k + '_From', 'to_' + k)]
    P += [('From_f64', 'from_f64'), ('From_f32', 'from_f32'), ('f64_From', 'to_f64'), ('f32_From', 'to_f32')]
    for o in TYPES: P += [('to_' + o, 'to_' + o + '_m'), ('from_' + o, 'from_' + o + '_m')]
    P += [('gg_From_px1', 'gg_from_px1'), ('gg_From_px2', 'gg_from_px2'), ('op_lt', 'lt'), ('op_le', 'le'), ('op_gt', 'gt'), ('op_ge', 'ge'), ('op_eq', 'eq'), ('Ord_cmp', 'cmp')]
    have = {op for (op, *_r) in px_ops(ty)}
    return [(a, b) for a, b in P if a in have and b in have]

def agreement_failures(pid, tag):
    """C17: every spelled operation must return the same bits as the inherent operation on the same input"""
    import glob
    if pid != 'C17': return []
    res = collections.defaultdict(dict)          # (ty, op) -> {args: result}
    for f in glob.glob(os.path.join(core.WORK, 'runs', tag, 'out_*.txt')):
        for l in open(f):
            if ' => ' not in l: continue
            lhs, r = l.rstrip('\n').split(' => ', 1)
            ws = lhs.split(' ', 2)
            res[(ws[0], ws[1])][ws[2] if len(ws) > 2 else ''] = r
    out = []
    for ty in TYPES:
        for (a_, b_, args) in forwarders(ty):
            ra, rb = res.get((ty, a_)), res.get((ty, b_))
            if not ra or not rb: continue
            for av, r in ra.items():
                r2 = rb.get(av)
                if r2 is not None and r2 != r:
                    out.append({'kind': 'AGREE', 'ty': ty, 'op': a_, 'args': av.split(), 'impl': r, 'want': '%s (= %s.%s)' % (r2, ty, b_), 'line': ''})
    for ty in PX:
        for a_, b_ in px_forwarders(ty):
            ra, rb = res.get((ty, a_)), res.get((ty, b_))
            if not ra or not rb: continue
            for av, r in ra.items():
                r2 = rb.get(av)
                if r2 is not None and r2 != r:
                    out.append({'kind': 'AGREE', 'ty': ty, 'op': a_, 'args': av.split(), 'impl': r, 'want': '%s (= %s.%s)' % (r2, ty, b_), 'line': ''})
    # quire: single-posit forms vs product-with-ONE forms from the same state (quire_boundary_spellings)
    import re as _re
    for qt, n in QT.items():
        one = '%x' % (1 << (n - 2))
        groups = collections.defaultdict(dict)
        for av, r in (res.get((qt, 'hist')) or {}).items():
            t = av.split()
            if len(t) < 4 or t[0] != 'fb': continue
            if len(t) == 4 and t[2] in ('a1', 's1'): key = (t[1], 'add' if t[2] == 'a1' else 'sub', t[3])
            elif len(t) == 5 and t[2] in ('ap', 'mp', 'tp', 'sp', 'ms', 'ts') and one in (t[3], t[4]):
                key = (t[1], 'add' if t[2] in ('ap', 'mp', 'tp') else 'sub', t[3] if t[4] == one else t[4])
            else: continue
            groups[key][av] = r
        for key, g in groups.items():
            base = None
            for av in sorted(g, key=lambda a: (len(a.split()), a)):      # the single-posit form first
                if base is None: base = (av, g[av]); continue
                if g[av] != base[1]:
                    out.append({'kind': 'AGREE', 'ty': qt, 'op': 'hist', 'args': base[0].split(), 'impl': base[1], 'want': '%s (= %s hist %s)' % (g[av], qt, av), 'line': ''})
    return out

def distinct_nontrivial(pid, passes):
    n = 0
    for p in passes:
        n += int(p['summary']['spec'].get('compared', 0))
    return max(n, 0)

def samples(passes, pid):
    d = os.path.join(core.WORK, 'runs')
    out = []
    for tag in sorted(os.listdir(d)):
        if tag.startswith(pid + '_'):
            f = os.path.join(d, tag, 'out_0.txt')
            if os.path.exists(f):
                ls = open(f).read().splitlines()
                step = max(1, len(ls) // 8)
                out += ls[::step][:8]
                break
    return out or ['(no cases)']

def trusted_base(pid, obligations):
    tb = ['Lean 4.33.0 kernel', 'propext', 'Classical.choice', 'Quot.sound',
          'translator/thir2lean.py + lean/Rs.lean primitive table (validated by model-vs-impl correspondence, not trusted blindly)',
          'lean/Spec/*.lean (the specification)']
    nat = sorted(set(a for o in obligations.values() for a in o['axioms'] if '._native.' in a))
    if nat: tb.append('%d native_decide axioms (Lean compiler + C toolchain): %s' % (len(nat), ', '.join(nat[:6]) + (' ...' if len(nat) > 6 else '')))
    return tb

def distribution(pid, tier):
    c = collections.Counter()
    for (ty, op, args, has_spec) in ops_of(pid):
        c[ty + ':' + str(len(list(args))) + 'arg' + (':spec' if has_spec else ':model-only')] += 1
    return dict(c)
